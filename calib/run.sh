#!/bin/bash
# Dev-time calibration of the reference models against executables present in this image.
# usage: calib/run.sh <dpkg|pep440|maven|semver> [n] [seed]      (never a dependency of any check)
set -u
export LC_ALL=C.UTF-8 LANG=C.UTF-8 JAVA_TOOL_OPTIONS="-Dfile.encoding=UTF-8 -Dsun.jnu.encoding=UTF-8 -Dstdout.encoding=UTF-8"
cd "$(dirname "$0")/.."
export GOFLAGS=-mod=mod GOPROXY=off GOTOOLCHAIN=local
GO=/root/go/pkg/mod/golang.org/toolchain@v0.0.1-go1.24.4.linux-amd64/bin/go
M=$1; N=${2:-100000}; S=${3:-1}
mkdir -p .build
( cd harness && $GO build -o ../.build/calib ./cmd/calib ) || exit 3
T=$(mktemp -d /tmp/verif-calib.XXXX); trap 'rm -rf $T' EXIT
.build/calib $M $N $S > $T/pairs.tsv
case $M in
 dpkg)
  python3 - $T/pairs.tsv <<'P'
import sys, subprocess
bad=0; n=0
for l in open(sys.argv[1]):
    a,b,c=l.rstrip('\n').split('\t'); n+=1
    r=lambda op: subprocess.call(['dpkg','--compare-versions',a,op,b],stderr=subprocess.DEVNULL)==0
    got=-1 if r('lt') else (0 if r('eq') else 1)
    if got!=int(c):
        bad+=1
        if bad<20: print('DISAGREE',a,b,'model',c,'dpkg',got)
print('pairs',n,'disagreements',bad)
P
  ;;
 pep440)
  /opt/veriftools/pyvenv/bin/python - $T/pairs.tsv <<'P'
import sys
from packaging.version import Version
bad=0;n=0
for l in open(sys.argv[1]):
    a,b,c=l.rstrip('\n').split('\t'); n+=1
    x,y=Version(a),Version(b)
    got=(x>y)-(x<y)
    if got!=int(c):
        bad+=1
        if bad<20: print('DISAGREE',a,b,'model',c,'packaging',got)
print('pairs',n,'disagreements',bad)
P
  ;;
 maven)
  mkdir -p $T/j; cat > $T/j/Cmp.java <<'J'
import java.io.*; import org.apache.maven.artifact.versioning.ComparableVersion;
public class Cmp { public static void main(String[] a) throws Exception { BufferedReader r=new BufferedReader(new InputStreamReader(System.in)); String l; int n=0,bad=0;
 while((l=r.readLine())!=null){ String[] p=l.split("\t"); n++; int c=Integer.signum(new ComparableVersion(p[0]).compareTo(new ComparableVersion(p[1])));
  if(c!=Integer.parseInt(p[2])){bad++; if(bad<20) System.out.println("DISAGREE "+p[0]+" "+p[1]+" model "+p[2]+" maven "+c);} }
 System.out.println("pairs "+n+" disagreements "+bad);}}
J
  JAR=$(ls /usr/share/maven/lib/maven-artifact-3.x.jar /usr/share/maven/lib/maven-artifact*.jar 2>/dev/null | head -1)
  CP=$JAR:$(ls /usr/share/maven/lib/commons-lang3*.jar 2>/dev/null | head -1)
  javac -cp $CP -d $T/j $T/j/Cmp.java && java -cp $CP:$T/j Cmp < $T/pairs.tsv
  ;;
 semver)
  SV=$(ls -d /usr/lib/node_modules/npm/node_modules/semver /usr/share/nodejs/semver /usr/local/lib/node_modules/npm/node_modules/semver 2>/dev/null | head -1)
  node -e "
const semver=require('$SV');const fs=require('fs');let n=0,bad=0;
for(const l of fs.readFileSync('$T/pairs.tsv','utf8').split('\n')){if(!l)continue;const [a,b,c]=l.split('\t');n++;
 let got;try{got=semver.compare(a,b);}catch(e){n--;continue;}if(got!==parseInt(c)){bad++;if(bad<20)console.log('DISAGREE',a,b,'model',c,'node',got);}}
console.log('pairs',n,'disagreements',bad);"
  ;;
esac
