package checks

import (
	"fmt"
	"regexp"
	"sort"
	"strconv"
	"strings"

	"verif/harness/core"
	"verif/harness/eco"
	"verif/harness/gen"
)

func init() {
	ck := &Check{
		ID: "C01",
		Rule: "per ecosystem, pools built as unions of clusters (near-identical spellings around a base: every known marker, " +
			"numbers n, n+-1, 10n, one more/fewer component, respellings, leading zeros, >64-bit runs, unknown qualifiers); " +
			"the FULL comparison matrix of each pool is observed and checked for range, reflexivity, antisymmetry and, via " +
			"sort-then-verify, transitivity of the total preorder; a case is non-trivial when it is an unordered pair of " +
			"textually different accepted versions (hashed, capped at 8M)",
		Assumptions: []string{"Go reflect/sort", "alpm pools are split into with-pkgrel and without-pkgrel families (the property's sole scoped exclusion)"},
		MinEvals:    100000,
	}
	ck.Run = func(c *core.Ctx) { runC01(c, ck) }
	ck.Eval = evalC01
	register(ck)
}

var alpmPkgrel = regexp.MustCompile(`-[0-9]+$`)

func alpmHasPkgrel(s string) bool { return alpmPkgrel.MatchString(strings.TrimSpace(s)) }

// evalC01: op "triple", args [a,b,c] (b,c may repeat a).
func evalC01(c *core.Ctx, e *eco.Eco, op string, args []string) []core.Violation {
	var out []core.Violation
	if e == nil || len(args) == 0 {
		return nil
	}
	if op == "volume" && len(args) >= 2 {
		v, _ := strconv.Atoi(args[1])
		return volumeRun(c, c.NewW(), e, nil, nil, nil, args[0], v)
	}
	for len(args) < 3 {
		args = append(args, args[len(args)-1])
	}
	vs := make([]eco.Ver, 3)
	for i := 0; i < 3; i++ {
		v, err, pn := e.SafeNewVersion(args[i])
		if pn != nil || err != nil || v == nil {
			return nil // not in the quantifier's domain any more
		}
		vs[i] = v
	}
	var m [3][3]int
	for i := 0; i < 3; i++ {
		for j := 0; j < 3; j++ {
			r, pn := eco.SafeCompare(vs[i], vs[j])
			if pn != nil {
				out = append(out, core.Violation{Eco: e.Name, Op: "triple", Args: args[:3], Rule: "panic", Got: pn.Value, Detail: pn.Stack})
				return out
			}
			if r < -1 || r > 1 {
				out = append(out, core.Violation{Eco: e.Name, Op: "triple", Args: args[:3], Rule: "range", Got: itoa(r), Want: "-1|0|1",
					Detail: fmt.Sprintf("Compare(%q,%q)", args[i], args[j])})
				return out
			}
			m[i][j] = r
		}
	}
	for i := 0; i < 3; i++ {
		if m[i][i] != 0 {
			out = append(out, core.Violation{Eco: e.Name, Op: "triple", Args: []string{args[i], args[i], args[i]}, Rule: "reflexive", Got: itoa(m[i][i]), Want: "0"})
			return out
		}
		for j := 0; j < 3; j++ {
			if m[i][j] != -m[j][i] {
				out = append(out, core.Violation{Eco: e.Name, Op: "triple", Args: []string{args[i], args[j], args[j]}, Rule: "antisymmetry",
					Got: fmt.Sprintf("cmp(a,b)=%d cmp(b,a)=%d", m[i][j], m[j][i]), Want: "negated"})
				return out
			}
		}
	}
	// transitivity over all orderings of the three
	perm := [][3]int{{0, 1, 2}, {0, 2, 1}, {1, 0, 2}, {1, 2, 0}, {2, 0, 1}, {2, 1, 0}}
	for _, p := range perm {
		ab, bc, ac := m[p[0]][p[1]], m[p[1]][p[2]], m[p[0]][p[2]]
		if ab <= 0 && bc <= 0 {
			strict := ab < 0 || bc < 0
			if ac > 0 || (strict && ac >= 0) {
				rule := "transitivity"
				if inheritedNonTransitive(e, args[:3]) {
					rule = "transitivity:inherited-from-reference"
				}
				out = append(out, core.Violation{Eco: e.Name, Op: "triple", Args: []string{args[p[0]], args[p[1]], args[p[2]]}, Rule: rule,
					Got: fmt.Sprintf("cmp(a,b)=%d cmp(b,c)=%d cmp(a,c)=%d", ab, bc, ac), Want: "a<=b<=c implies a<=c (strict if a step is strict)"})
				return out
			}
		}
	}
	return out
}

func runC01(c *core.Ctx, ck *Check) {
	evalWitnesses(c, ck)
	ecos := eco.All()
	pools := c.Scale(40, 1500)
	size := c.Scale(200, 400)
	type job struct {
		e *eco.Eco
		k int
	}
	var jobs []job
	for _, e := range ecos {
		for k := 0; k < pools; k++ {
			jobs = append(jobs, job{e, k})
		}
	}
	// state that builds up (volume.go): V distinct versions are parsed and kept, then the laws are checked on objects
	// parsed far apart and on the objects parsed before the volume
	c.Parallel(len(ecos), func(w *core.W, i int) {
		for _, v := range volumeRun(c, w, ecos[i], nil, nil, nil, "c01", c.Scale(560000, 2200000)) {
			w.Report(v)
		}
	})
	c.Parallel(len(jobs), func(w *core.W, i int) {
		j := jobs[i]
		r := c.Rand("pool", j.e.Name, itoa(j.k))
		p := BuildPool(j.e, r, size, w)
		if j.k == 3 { // every committed 64-bit FNV / CRC collision pair side by side
			seenC := map[string]bool{}
			for _, s := range p.Strs {
				seenC[s] = true
			}
			for _, cp := range gen.CommittedCollisions() {
				p.Add(cp.A, seenC)
				p.Add(cp.B, seenC)
			}
		}
		if j.e.Name == "alpm" {
			// two families; mixed triples are the scoped exclusion
			a, b := &Pool{Eco: j.e}, &Pool{Eco: j.e}
			for x, s := range p.Strs {
				if alpmHasPkgrel(s) {
					a.Strs, a.Vers = append(a.Strs, s), append(a.Vers, p.Vers[x])
				} else {
					b.Strs, b.Vers = append(b.Strs, s), append(b.Vers, p.Vers[x])
				}
			}
			matrixLaws(c, w, a)
			matrixLaws(c, w, b)
			return
		}
		matrixLaws(c, w, p)
	})
}

// matrixLaws observes the full comparison matrix of a pool and checks the total-preorder laws.
func matrixLaws(c *core.Ctx, w *core.W, p *Pool) {
	n := len(p.Vers)
	if n < 2 {
		return
	}
	e := p.Eco
	m := make([]int8, n*n)
	bad := 0
	report := func(a, b, cc int) {
		if bad >= 3 {
			return
		}
		for _, v := range evalC01(c, e, "triple", []string{p.Strs[a], p.Strs[b], p.Strs[cc]}) {
			bad++
			w.Report(v)
		}
	}
	for i := 0; i < n; i++ {
		for j := 0; j < n; j++ {
			r, pn := eco.SafeCompare(p.Vers[i], p.Vers[j])
			if pn != nil || r < -1 || r > 1 {
				report(i, j, j)
				r = 0
			}
			m[i*n+j] = int8(r)
		}
	}
	w.Count("evaluations", int64(n*n))
	w.Count("events:Compare", int64(n*n))
	w.Count("pools", 1)
	for i := 0; i < n; i++ {
		if m[i*n+i] != 0 {
			report(i, i, i)
		}
		for j := i + 1; j < n; j++ {
			if m[i*n+j] != -m[j*n+i] {
				report(i, j, j)
			}
			w.NT(core.Hash64(e.Name, minStr(p.Strs[i], p.Strs[j]), maxStr(p.Strs[i], p.Strs[j])))
			switch m[i*n+j] {
			case -1:
				w.Count("sign:-1", 1)
			case 0:
				w.Count("sign:0", 1)
			case 1:
				w.Count("sign:+1", 1)
			}
		}
	}
	if n >= 3 {
		w.Sample(map[string]any{"eco": e.Name, "pool_size": n, "first_versions": p.Strs[:min(8, n)]})
	}
	// sort-then-verify
	idx := make([]int, n)
	for i := range idx {
		idx[i] = i
	}
	sort.SliceStable(idx, func(a, b int) bool { return m[idx[a]*n+idx[b]] < 0 })
	run := make([]int, n) // run id of each sorted position
	for k := 1; k < n; k++ {
		run[k] = run[k-1]
		if m[idx[k-1]*n+idx[k]] != 0 {
			run[k]++
		}
	}
	w.Count("equivalence_classes", int64(run[n-1]+1))
	ok := true
	for a := 0; a < n && ok; a++ {
		for b := a + 1; b < n; b++ {
			v := m[idx[a]*n+idx[b]]
			if v > 0 || (v == 0) != (run[a] == run[b]) {
				ok = false
				break
			}
		}
	}
	if ok {
		return
	}
	// extract witness triples (O(n^3) only on failure)
	found := 0
	for a := 0; a < n && found < 3; a++ {
		for b := 0; b < n && found < 3; b++ {
			ab := m[a*n+b]
			if ab > 0 || a == b {
				continue
			}
			for cc := 0; cc < n; cc++ {
				bc, ac := m[b*n+cc], m[a*n+cc]
				if bc > 0 {
					continue
				}
				if ac > 0 || ((ab < 0 || bc < 0) && ac >= 0) {
					before := bad
					bad = 0
					report(a, b, cc)
					bad += before
					found++
					break
				}
			}
		}
	}
	if found == 0 {
		w.Report(core.Violation{Eco: e.Name, Op: "pool", Args: p.Strs[:min(n, 20)], Rule: "sort-verify-failed-without-triple"})
	}
}

func minStr(a, b string) string {
	if a < b {
		return a
	}
	return b
}
func maxStr(a, b string) string {
	if a < b {
		return b
	}
	return a
}
