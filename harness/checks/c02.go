package checks

import (
	"strconv"
	"strings"

	"verif/harness/core"
	"verif/harness/eco"
	"verif/harness/gen"
)

// cmpSyntax is the static table of supported comparator syntax per ecosystem, written from each
// range.go doc comment and the upstream documentation (never from observed behaviour).
type cmpSyntax struct {
	ops map[string]string // spelling -> base comparator (= != < <= > >=)
	and []string          // AND separator spellings
	or  []string          // OR separator spellings
	// list form: nuget comparators are claimed only inside its comma-separated list form
	listOnly bool
}

func ops(extra map[string]string, base ...string) map[string]string {
	m := map[string]string{}
	for _, b := range base {
		m[b] = b
	}
	for k, v := range extra {
		m[k] = v
	}
	return m
}

var six = []string{"=", "!=", "<", "<=", ">", ">="}
var five = []string{"=", "<", "<=", ">", ">="}

// CmpTable is the C02 syntax table.
var CmpTable = map[string]cmpSyntax{
	"alpine":     {ops: ops(nil, six...), and: []string{" "}},
	"alpm":       {ops: ops(nil, five...), and: []string{" ", " and "}},
	"apache":     {ops: ops(nil, five...), and: []string{" "}},
	"github":     {ops: ops(nil, five...), and: []string{" "}},
	"mattermost": {ops: ops(nil, five...), and: []string{" "}},
	"cargo":      {ops: ops(nil, six...), and: []string{",", ", "}},
	"composer":   {ops: ops(map[string]string{"==": "=", "<>": "!="}, six...), and: []string{" ", ",", ", "}, or: []string{"||", " || "}},
	"conan":      {ops: ops(nil, six...), and: []string{" ", ",", ", "}, or: []string{"||", " || "}},
	"cran":       {ops: ops(nil, six...), and: []string{",", ", "}},
	"debian":     {ops: ops(map[string]string{"<<": "<", ">>": ">"}, six...), and: []string{",", ", "}},
	"gem":        {ops: ops(nil, six...), and: []string{",", ", "}},
	"pypi":       {ops: ops(map[string]string{"==": "="}, "!=", "<", "<=", ">", ">="), and: []string{",", ", "}},
	"gentoo":     {ops: ops(nil, six...), and: []string{" ", ",", ", "}},
	"rpm":        {ops: ops(nil, six...), and: []string{" ", ",", ", "}},
	"semver":     {ops: ops(nil, six...), and: []string{" ", ",", ", "}},
	"golang":     {ops: ops(nil, six...), and: []string{" "}},
	"hex":        {ops: ops(nil, five...), and: []string{" ", " and "}},
	"npm":        {ops: ops(nil, five...), and: []string{" "}, or: []string{"||", " || "}},
	"nuget":      {ops: ops(nil, six...), and: []string{",", ", "}, listOnly: true},
	// maven: no comparator syntax (brackets only, C05)
}

func sat(op string, cmp int) bool {
	switch op {
	case "=":
		return cmp == 0
	case "!=":
		return cmp != 0
	case "<":
		return cmp < 0
	case "<=":
		return cmp <= 0
	case ">":
		return cmp > 0
	case ">=":
		return cmp >= 0
	}
	return false
}

// boundOK applies the quantifier's scoping: bounds that begin with a comparator character or contain
// the ecosystem's documented separator characters are out of scope.
func boundOK(ecoName, b string) bool {
	if b == "" || strings.TrimSpace(b) != b {
		return false
	}
	if strings.ContainsAny(b[:1], "<>=!~^") {
		return false
	}
	if strings.ContainsAny(b, " \t,|") {
		return false
	}
	if ecoName == "composer" && strings.Contains(b, "@") {
		return false // '@' introduces composer's stability flag
	}
	return true
}

func init() {
	ck := &Check{
		ID: "C02",
		Rule: "per ecosystem: bounds and probes come from C01-style pools (so probes sit on, just below and just above each bound); every supported " +
			"comparator spelling (static table) is written directly before the bound, alone, in AND lists with every documented separator spelling and in OR groups; " +
			"Contains(probe) must equal the truth table applied to the implementation's own Compare; a parse failure is a violation. " +
			"Non-trivial = distinct (ecosystem, range text, probe relation <,=,>) with probe text != bound text",
		Assumptions: []string{"the comparator/separator table CmpTable (from range.go doc comments and upstream docs)", "Compare is the scheme's order, as the property states"},
		MinEvals:    100000,
	}
	ck.Eval = evalC02
	ck.Run = func(c *core.Ctx) { runC02(c, ck) }
	register(ck)
}

// evalC02: args = [rangeText, probe, tok...] where tok is a sequence of (opSpelling, bound) pairs with
// "||" separating OR groups.
func evalC02(c *core.Ctx, e *eco.Eco, op string, args []string) []core.Violation {
	if e == nil || len(args) < 4 {
		return nil
	}
	syn, ok := CmpTable[e.Name]
	if !ok {
		return nil
	}
	if op == "volume-ranges" {
		v, _ := strconv.Atoi(args[1])
		return volumeRanges(c, c.NewW(), e, syn, args[0], v)
	}
	if op == "overwritten-operand" && len(args) >= 5 {
		rg, err, pn := e.SafeNewRange(args[0])
		x, _, _ := e.SafeNewVersion(args[1])
		y, _, _ := e.SafeNewVersion(args[2])
		bv, _, _ := e.SafeNewVersion(args[4])
		if pn != nil || err != nil || rg == nil || x == nil || y == nil || bv == nil {
			return nil
		}
		if x = x.OwnCopy(); x == nil {
			return nil
		}
		eco.SafeContains(rg, x)
		if !eco.OverwriteInPlace(x, y) {
			return nil
		}
		got, _ := eco.SafeContains(rg, x)
		cv, _ := eco.SafeCompare(y, bv)
		if want := sat(syn.ops[args[3]], cv); got != want {
			return []core.Violation{{Eco: e.Name, Op: op, Args: args, Rule: "answer-for-the-old-value", Got: b2s(got), Want: b2s(want)}}
		}
		return nil
	}
	rs, ps := args[0], args[1]
	pv, err, pn := e.SafeNewVersion(ps)
	if pn != nil || err != nil || pv == nil {
		return nil
	}
	mk := func(rule, got, want string) []core.Violation {
		return []core.Violation{{Eco: e.Name, Op: "cmp-range", Args: args, Rule: rule, Got: got, Want: want}}
	}
	want := false
	group := true
	toks := args[2:]
	for i := 0; i < len(toks); {
		if toks[i] == "||" {
			want = want || group
			group = true
			i++
			continue
		}
		if i+1 >= len(toks) {
			return nil
		}
		base, known := syn.ops[toks[i]]
		bv, err, pn := e.SafeNewVersion(toks[i+1])
		if !known || pn != nil || err != nil || bv == nil {
			return nil // bound not valid: outside the quantifier
		}
		cv, pn := eco.SafeCompare(pv, bv)
		if pn != nil {
			return nil // C01/C06's finding
		}
		group = group && sat(base, cv)
		i += 2
	}
	want = want || group
	r, err, pn := e.SafeNewRange(rs)
	if pn != nil {
		return mk("panic", pn.Value, "")
	}
	if err != nil || r == nil {
		return mk("parse", "error: "+errStr(err), "accepted")
	}
	got, pn := eco.SafeContains(r, pv)
	if pn != nil {
		return mk("panic", pn.Value, "")
	}
	if got != want {
		rule := "single"
		if n := len(toks); n > 2 {
			rule = "and"
			for _, t := range toks {
				if t == "||" {
					rule = "or"
				}
			}
		}
		return mk(rule, b2s(got), b2s(want))
	}
	return nil
}

func errStr(err error) string {
	if err == nil {
		return "<nil value, nil error>"
	}
	return err.Error()
}
func b2s(b bool) string {
	if b {
		return "true"
	}
	return "false"
}

func runC02(c *core.Ctx, ck *Check) {
	evalWitnesses(c, ck)
	pools := c.Scale(8, 300)
	type job struct {
		e *eco.Eco
		k int
	}
	var jobs []job
	for _, e := range eco.All() {
		if _, ok := CmpTable[e.Name]; !ok {
			continue
		}
		for k := 0; k < pools; k++ {
			jobs = append(jobs, job{e, k})
		}
	}
	// hash-collision bounds (gen/collide.go): ordinary versions whose texts collide under a common 32-bit hash are used
	// as bounds one right after the other, so that any state keyed on a hash of the bound text serves the wrong bound
	var ecosC02 []*eco.Eco
	for _, e := range eco.All() {
		if _, ok := CmpTable[e.Name]; ok {
			ecosC02 = append(ecosC02, e)
		}
	}
	c.Parallel(len(ecosC02), func(w *core.W, i int) {
		e := ecosC02[i]
		syn := CmpTable[e.Name]
		r := c.Rand("c02-collide", e.Name)
		pairs := gen.CollidingPairs(gen.CollisionPrefix(e.Name))
		var spell []string
		for s := range syn.ops {
			spell = append(spell, s)
		}
		sortStrings(spell)
		reported := map[string]int{}
		for k := 0; k < c.Scale(200, 1200) && len(pairs) > 0; k++ {
			cp := pairs[(k+r.IntN(len(pairs)))%len(pairs)]
			p := &Pool{Eco: e}
			seen := map[string]bool{}
			if !p.Add(cp.A, seen) || !p.Add(cp.B, seen) {
				w.Count("collision_pairs_not_accepted", 1)
				continue
			}
			for _, s := range []string{"0.0.1", "5.0.0", "10.10.10", "20.3.4", "50.50.50", "98.99.99", "120.0.0"} {
				p.Add(gen.CollisionPrefix(e.Name)+s, seen)
			}
			bidx := map[string]int{cp.A: 0, cp.B: 1}
			for _, sp := range spell {
				for _, b := range []string{cp.A, cp.B, cp.A} {
					txt := sp + b
					if syn.listOnly {
						txt += ","
					}
					try2(c, w, e, syn, p, bidx, txt, []string{sp, b}, reported)
				}
			}
			w.Count("collision_pairs_as_bounds", 1)
			w.Count("collision_hash:"+cp.Hash, 1)
		}
	})
	// state that builds up on the range side (volume.go)
	c.Parallel(len(ecosC02), func(w *core.W, i int) {
		for _, v := range volumeRanges(c, w, ecosC02[i], CmpTable[ecosC02[i].Name], "c02", c.Scale(300000, 1500000)) {
			w.Report(v)
		}
	})
	c.Parallel(len(jobs), func(w *core.W, i int) {
		j := jobs[i]
		e := j.e
		syn := CmpTable[e.Name]
		r := c.Rand("c02", e.Name, itoa(j.k))
		p := BuildPool(e, r, 160, w)
		n := len(p.Strs)
		if n < 4 {
			return
		}
		var bounds []int
		for _, x := range r.Perm(n) {
			if boundOK(e.Name, p.Strs[x]) {
				bounds = append(bounds, x)
			}
			if len(bounds) >= 28 {
				break
			}
		}
		var spell []string
		for s := range syn.ops {
			spell = append(spell, s)
		}
		sortStrings(spell)
		reported := map[string]int{}
		bidx := map[string]int{}
		for _, b := range bounds {
			bidx[p.Strs[b]] = b
		}
		tryWith := func(rangeText string, toks []string) {
			try2(c, w, e, syn, p, bidx, rangeText, toks, reported)
		}
		// singles
		for _, b := range bounds {
			for _, sp := range spell {
				txt := sp + p.Strs[b]
				if syn.listOnly {
					txt += ","
				}
				tryWith(txt, []string{sp, p.Strs[b]})
				w.Count("shape:single", 1)
			}
		}
		// all in-scope bounds in the pool's sorted order: neighbours are cluster mates (same numbers, another
		// marker / revision / spelling), where redundant-bound and tie handling goes wrong
		var near []int
		for _, x := range p.SortedIdx() {
			if boundOK(e.Name, p.Strs[x]) {
				near = append(near, x)
				bidx[p.Strs[x]] = x
			}
		}
		pickBounds := func(m int) []string {
			out := make([]string, m)
			if r.IntN(2) == 0 && len(near) > 6 {
				at := r.IntN(len(near))
				for x := range out {
					k := at + r.IntN(7) - 3
					if k < 0 {
						k = 0
					}
					if k >= len(near) {
						k = len(near) - 1
					}
					out[x] = p.Strs[near[k]]
				}
				return out
			}
			for x := range out {
				out[x] = p.Strs[bounds[r.IntN(len(bounds))]]
			}
			return out
		}
		// AND lists of 2-3 comparators, every separator spelling
		for k := 0; k < c.Scale(120, 240) && len(bounds) >= 3; k++ {
			sep := syn.and[r.IntN(len(syn.and))]
			m := 2 + r.IntN(2)
			var parts, toks []string
			sameSide := r.IntN(3) == 0 // several lower (or several upper) bounds in one list
			side := r.IntN(2)
			for _, b := range pickBounds(m) {
				sp := spell[r.IntN(len(spell))]
				if sameSide {
					for tries := 0; tries < 20; tries++ {
						base := syn.ops[sp]
						if (side == 0 && (base == ">" || base == ">=")) || (side == 1 && (base == "<" || base == "<=")) {
							break
						}
						sp = spell[r.IntN(len(spell))]
					}
				}
				parts = append(parts, sp+b)
				toks = append(toks, sp, b)
			}
			tryWith(strings.Join(parts, sep), toks)
			w.Count("shape:and", 1)
		}
		// OR of 2-3 groups
		for k := 0; k < c.Scale(60, 120) && len(syn.or) > 0 && len(bounds) >= 3; k++ {
			osep := syn.or[r.IntN(len(syn.or))]
			g := 2 + r.IntN(2)
			var groups, toks []string
			for x := 0; x < g; x++ {
				if x > 0 {
					toks = append(toks, "||")
				}
				m := 1 + r.IntN(2)
				sep := syn.and[r.IntN(len(syn.and))]
				var parts []string
				for _, b := range pickBounds(m) {
					sp := spell[r.IntN(len(spell))]
					parts = append(parts, sp+b)
					toks = append(toks, sp, b)
				}
				groups = append(groups, strings.Join(parts, sep))
			}
			tryWith(strings.Join(groups, osep), toks)
			w.Count("shape:or", 1)
		}
		// OR of 3-5 SPANS (lower AND upper) over one run of neighbouring bounds: spans overlap, touch (same bound with
		// every inclusive / exclusive combination) or leave a one-class gap; the groups are written in shuffled order.
		// Interval merging, normalisation and "sorted spans" fast paths go wrong exactly between such neighbours.
		var lowSp, upSp []string
		for _, sp := range spell {
			switch syn.ops[sp] {
			case ">", ">=":
				lowSp = append(lowSp, sp)
			case "<", "<=":
				upSp = append(upSp, sp)
			}
		}
		for k := 0; k < c.Scale(150, 600) && len(syn.or) > 0 && len(near) >= 8 && len(lowSp) > 0 && len(upSp) > 0; k++ {
			osep := syn.or[r.IntN(len(syn.or))]
			g := 3 + r.IntN(3)
			at := r.IntN(len(near) - 7)
			pos := at // position in near of the current span's lower bound
			type span struct {
				txt  string
				toks []string
			}
			var spans []span
			for x := 0; x < g && pos < len(near)-1; x++ {
				lo := pos
				hi := lo + 1 + r.IntN(3)
				if hi >= len(near) {
					hi = len(near) - 1
				}
				ls, us := lowSp[r.IntN(len(lowSp))], upSp[r.IntN(len(upSp))]
				lb, ub := p.Strs[near[lo]], p.Strs[near[hi]]
				sep := syn.and[r.IntN(len(syn.and))]
				spans = append(spans, span{ls + lb + sep + us + ub, []string{ls, lb, us, ub}})
				// next span: starts inside this one (overlap), on its upper bound (touch) or one step later (gap)
				pos = hi - 1 + r.IntN(3)
				if pos <= lo {
					pos = lo + 1
				}
			}
			if len(spans) < 3 {
				continue
			}
			r.Shuffle(len(spans), func(a, b int) { spans[a], spans[b] = spans[b], spans[a] })
			var groups, toks []string
			for x, sp := range spans {
				if x > 0 {
					toks = append(toks, "||")
				}
				groups = append(groups, sp.txt)
				toks = append(toks, sp.toks...)
			}
			tryWith(strings.Join(groups, osep), toks)
			w.Count("shape:or-of-spans", 1)
		}
		// a version object that is OVERWRITTEN in place between two questions to the same range object (*x = *y: a caller
		// who keeps a Version by value and updates it): the second answer must be the one for the new value. Result
		// memos keyed on the operand's address assume an address never changes its value
		for k := 0; k < c.Scale(40, 200) && len(bounds) >= 3; k++ {
			sp := spell[r.IntN(len(spell))]
			b := p.Strs[bounds[r.IntN(len(bounds))]]
			txt := sp + b
			if syn.listOnly {
				txt += ","
			}
			rg, err, pn := e.SafeNewRange(txt)
			if pn != nil || err != nil || rg == nil {
				continue
			}
			as, bs := p.Strs[r.IntN(n)], p.Strs[r.IntN(n)]
			x, _, _ := e.SafeNewVersion(as)
			y, _, _ := e.SafeNewVersion(bs)
			if x == nil || y == nil {
				continue
			}
			// x is a struct copy that the workload owns: overwriting it cannot touch an object the library may share
			if x = x.OwnCopy(); x == nil {
				continue
			}
			eco.SafeContains(rg, x)
			if !eco.OverwriteInPlace(x, y) {
				continue
			}
			got, pn := eco.SafeContains(rg, x)
			w.Count("evaluations", 1)
			w.Count("overwritten_operand_questions", 1)
			cv, _ := eco.SafeCompare(y, p.Vers[bidx[b]])
			want := sat(syn.ops[sp], cv)
			if pn != nil || got != want {
				if reported["overwrite"] < 3 {
					reported["overwrite"]++
					w.Report(core.Violation{Eco: e.Name, Op: "overwritten-operand", Args: []string{txt, as, bs, sp, b}, Rule: "answer-for-the-old-value", Got: b2s(got), Want: b2s(want),
						Detail: "Contains(range, x) was asked, then *x was overwritten with the second version, then Contains(range, x) was asked again"})
				}
			}
		}
		// long homogeneous lists (size thresholds: set-based fast paths for "8 or more exclusions", "16 or more exact
		// alternatives"): AND lists of 8..40 != bounds with an optional lower / upper bound, OR lists of 16..40 exact versions
		var neSp, eqSp []string
		for _, sp := range spell {
			switch syn.ops[sp] {
			case "!=":
				neSp = append(neSp, sp)
			case "=":
				eqSp = append(eqSp, sp)
			}
		}
		for k := 0; k < c.Scale(30, 120) && len(near) >= 12; k++ {
			cnt := []int{8, 9, 12, 16, 17, 32, 33, 40}[r.IntN(8)]
			at := r.IntN(len(near))
			pickNear := func() string {
				x := at + r.IntN(2*cnt) - cnt/2
				if x < 0 {
					x = 0
				}
				if x >= len(near) {
					x = len(near) - 1
				}
				return p.Strs[near[x]]
			}
			if len(neSp) > 0 && len(syn.and) > 0 {
				sep := syn.and[r.IntN(len(syn.and))]
				var parts, toks []string
				if len(lowSp) > 0 && r.IntN(2) == 0 {
					sp, b := lowSp[r.IntN(len(lowSp))], pickNear()
					parts, toks = append(parts, sp+b), append(toks, sp, b)
				}
				for x := 0; x < cnt; x++ {
					sp, b := neSp[r.IntN(len(neSp))], pickNear()
					parts, toks = append(parts, sp+b), append(toks, sp, b)
				}
				if len(upSp) > 0 && r.IntN(2) == 0 {
					sp, b := upSp[r.IntN(len(upSp))], pickNear()
					parts, toks = append(parts, sp+b), append(toks, sp, b)
				}
				r.Shuffle(len(parts), func(a, b int) {
					parts[a], parts[b] = parts[b], parts[a]
					toks[2*a], toks[2*b] = toks[2*b], toks[2*a]
					toks[2*a+1], toks[2*b+1] = toks[2*b+1], toks[2*a+1]
				})
				tryWith(strings.Join(parts, sep), toks)
				w.Count("shape:long-exclusion-list", 1)
			}
			if len(syn.and) > 0 && len(lowSp) > 0 && len(upSp) > 0 {
				// 13..40 comparators of every kind over a few neighbouring bounds, the same bound under strict and non-strict
				// operators: redundant-bound elimination, sorting (library sorts are unstable beyond 12 elements) and
				// de-duplication are only exercised by lists of this length
				sep := syn.and[r.IntN(len(syn.and))]
				m := []int{13, 14, 16, 20, 33, 40}[r.IntN(6)]
				// a satisfiable list: lower comparators on bounds at or below L, upper comparators at or above U (L < U in
				// the pool's order), L and U each under BOTH strictnesses, exclusions elsewhere
				lo := r.IntN(len(near) - 4)
				hi := lo + 1 + r.IntN(min(6, len(near)-lo-1))
				strict := func(l []string, wantStrict bool) string {
					for _, sp := range l {
						if (len(syn.ops[sp]) == 1) == wantStrict {
							return sp
						}
					}
					return l[0]
				}
				var parts, toks []string
				add := func(sp, b string) { parts, toks = append(parts, sp+b), append(toks, sp, b) }
				L, U := p.Strs[near[lo]], p.Strs[near[hi]]
				add(strict(lowSp, true), L)
				add(strict(lowSp, false), L)
				add(strict(upSp, true), U)
				add(strict(upSp, false), U)
				for len(parts) < m {
					switch r.IntN(4) {
					case 0:
						add(lowSp[r.IntN(len(lowSp))], p.Strs[near[max(0, lo-r.IntN(4))]])
					case 1:
						add(upSp[r.IntN(len(upSp))], p.Strs[near[min(len(near)-1, hi+r.IntN(4))]])
					case 2:
						if len(neSp) > 0 {
							add(neSp[r.IntN(len(neSp))], pickNear())
						}
					default:
						if r.IntN(2) == 0 {
							add(lowSp[r.IntN(len(lowSp))], L)
						} else {
							add(upSp[r.IntN(len(upSp))], U)
						}
					}
				}
				r.Shuffle(len(parts), func(a, b int) {
					parts[a], parts[b] = parts[b], parts[a]
					toks[2*a], toks[2*b] = toks[2*b], toks[2*a]
					toks[2*a+1], toks[2*b+1] = toks[2*b+1], toks[2*a+1]
				})
				tryWith(strings.Join(parts, sep), toks)
				w.Count("shape:long-mixed-and-list", 1)
			}
			if len(eqSp) > 0 && len(syn.or) > 0 {
				osep := syn.or[r.IntN(len(syn.or))]
				var parts, toks []string
				for x := 0; x < cnt*2; x++ {
					if x > 0 {
						toks = append(toks, "||")
					}
					sp, b := eqSp[r.IntN(len(eqSp))], pickNear()
					parts, toks = append(parts, sp+b), append(toks, sp, b)
				}
				tryWith(strings.Join(parts, osep), toks)
				w.Count("shape:long-enumeration", 1)
			}
		}
		w.Sample(map[string]any{"eco": e.Name, "example_range": spell[0] + p.Strs[bounds[0]], "probes": n, "bounds": len(bounds)})
	})
}

func try2(c *core.Ctx, w *core.W, e *eco.Eco, syn cmpSyntax, p *Pool, bidx map[string]int, rangeText string, toks []string, reported map[string]int) {
	n := len(p.Strs)
	rep := func(probe string) {
		args := append([]string{rangeText, probe}, toks...)
		for _, v := range evalC02(c, e, "cmp-range", args) {
			if reported[v.Rule+toks[0]] < 3 {
				reported[v.Rule+toks[0]]++
				w.Report(v)
			}
		}
	}
	rg, err, pn := e.SafeNewRange(rangeText)
	if pn != nil || err != nil || rg == nil {
		w.Count("evaluations", 1)
		w.Count("parse_failures", 1)
		rep(p.Strs[0])
		return
	}
	for pi := 0; pi < n; pi++ {
		want, group := false, true
		rel := 0
		for t := 0; t < len(toks); {
			if toks[t] == "||" {
				want, group = want || group, true
				t++
				continue
			}
			bi := bidx[toks[t+1]]
			cv, pn := eco.SafeCompare(p.Vers[pi], p.Vers[bi])
			if pn != nil {
				cv = 0
			}
			if t == 0 {
				rel = sgn(cv)
			}
			group = group && sat(syn.ops[toks[t]], cv)
			t += 2
		}
		want = want || group
		got, pn := eco.SafeContains(rg, p.Vers[pi])
		w.Count("evaluations", 1)
		if p.Strs[pi] != toks[1] {
			w.NT(core.Hash64(e.Name, rangeText, itoa(rel)))
		}
		if pn != nil || got != want {
			rep(p.Strs[pi])
		}
	}
	w.Count("events:Contains", int64(n))
}

func sortStrings(s []string) {
	for i := 1; i < len(s); i++ {
		for j := i; j > 0 && s[j] < s[j-1]; j-- {
			s[j], s[j-1] = s[j-1], s[j]
		}
	}
}
