package checks

import (
	"regexp"
	"strconv"
	"strings"

	"verif/harness/core"
	"verif/harness/eco"
	"verif/harness/gen"
)

func init() {
	ck := &Check{
		ID: "C03",
		Rule: "per ecosystem and per claimed arity (static table gen.Arity): pairs of plain dotted-numeric versions with components from the boundary set " +
			"{0,1,2,9,10,11,99,100,999,1000,65535,2^31-1} and random values < 2^31, differing in one component, in several, or equal - both must be accepted " +
			"and ordered as their integer tuples; every pre-/post-release marker spelling of the static marker table that the parser accepts must order " +
			"strictly below / above the unmarked version. Non-trivial = distinct (ecosystem, arity, first differing position, relation) for tuple pairs and " +
			"distinct (ecosystem, arity, marker) for marker cases",
		Assumptions: []string{"the marker and arity tables in gen/versions.go (from parser grammars and upstream docs)", "github date-shaped inputs are compared only among themselves"},
		MinEvals:    50000,
	}
	ck.Eval = evalC03
	ck.Run = func(c *core.Ctx) { runC03(c, ck) }
	register(ck)
}

var ghDate = regexp.MustCompile(`^[0-9]{4}\.`)

func tupleCmp(a, b string) int {
	as, bs := strings.Split(a, "."), strings.Split(b, ".")
	for i := range as {
		x, _ := strconv.ParseInt(as[i], 10, 64)
		y, _ := strconv.ParseInt(bs[i], 10, 64)
		if x != y {
			if x < y {
				return -1
			}
			return 1
		}
	}
	return 0
}

// evalC03: op "tuple-order" args [a,b]; op "marker" args [base, marked, pre|post].
func evalC03(c *core.Ctx, e *eco.Eco, op string, args []string) []core.Violation {
	if e == nil || len(args) < 2 {
		return nil
	}
	mk := func(rule, got, want string) []core.Violation {
		return []core.Violation{{Eco: e.Name, Op: op, Args: args, Rule: rule, Got: got, Want: want}}
	}
	switch op {
	case "tuple-order":
		a, b := args[0], args[1]
		if e.Name == "github" && ghDate.MatchString(a) != ghDate.MatchString(b) {
			return nil
		}
		va, err, pn := e.SafeNewVersion(a)
		if pn != nil {
			return mk("panic", pn.Value, "")
		}
		if err != nil || va == nil {
			return []core.Violation{{Eco: e.Name, Op: op, Args: []string{a, a}, Rule: "rejects-plain-numeric", Got: "error: " + errStr(err), Want: "accepted"}}
		}
		vb, err, pn := e.SafeNewVersion(b)
		if pn != nil {
			return mk("panic", pn.Value, "")
		}
		if err != nil || vb == nil {
			return []core.Violation{{Eco: e.Name, Op: op, Args: []string{b, b}, Rule: "rejects-plain-numeric", Got: "error: " + errStr(err), Want: "accepted"}}
		}
		want := tupleCmp(a, b)
		got, pn := eco.SafeCompare(va, vb)
		if pn != nil {
			return mk("panic", pn.Value, "")
		}
		if sgn(got) != want {
			return mk("numeric-order", itoa(got), itoa(want))
		}
	case "marker":
		if len(args) < 3 {
			return nil
		}
		base, marked, kind := args[0], args[1], args[2]
		vb, err, pn := e.SafeNewVersion(base)
		if pn != nil || err != nil || vb == nil {
			return nil // reported by tuple-order
		}
		vm, err, pn := e.SafeNewVersion(marked)
		if pn != nil {
			return mk("panic", pn.Value, "")
		}
		if err != nil || vm == nil {
			return nil // spelling not accepted by the parser: outside the quantifier
		}
		want := -1
		if kind == "post" {
			want = 1
		}
		got, pn := eco.SafeCompare(vm, vb)
		if pn != nil {
			return mk("panic", pn.Value, "")
		}
		back, _ := eco.SafeCompare(vb, vm)
		if sgn(got) != want || sgn(back) != -want {
			return mk(kind+"-marker", "cmp(marked,base)="+itoa(got)+" cmp(base,marked)="+itoa(back), itoa(want)+"/"+itoa(-want))
		}
	}
	return nil
}

func runC03(c *core.Ctx, ck *Check) {
	evalWitnesses(c, ck)
	ecos := eco.All()
	rounds := c.Scale(16, 400)
	type job struct {
		e *eco.Eco
		k int
	}
	var jobs []job
	for _, e := range ecos {
		for k := 0; k < rounds; k++ {
			jobs = append(jobs, job{e, k})
		}
	}
	c.Parallel(len(jobs), func(w *core.W, i int) {
		j := jobs[i]
		e := j.e
		r := c.Rand("c03", e.Name, itoa(j.k))
		ar := gen.Arity[e.Name]
		val := func() string {
			switch r.IntN(12) {
			case 0:
				return gen.CarryNum(r)
			case 1:
				return gen.DateNum(r, false)
			case 3, 4:
				return gen.LogNum(r, 31)
			case 5:
				return gen.EncodingNums[r.IntN(len(gen.EncodingNums))]
			case 2:
				if n := gen.EcoNum(e.Name, r); n != "" && len(n) <= 9 && strings.TrimLeft(n, "0") == n {
					return n
				}
			}
			if r.IntN(3) == 0 {
				return strconv.FormatInt(r.Int64N(1<<31), 10)
			}
			return gen.Boundary[r.IntN(len(gen.Boundary))]
		}
		reported := map[string]int{}
		rep := func(vs []core.Violation) {
			for _, v := range vs {
				if reported[v.Rule] < 4 {
					reported[v.Rule]++
					w.Report(v)
				}
			}
		}
		ms := gen.MarkerTable[e.Name]
		if j.k == 0 {
			// deterministic sweep: every position of every arity carries 2^e-1 / 2^e (e = 1..31) and every encoding
			// boundary once, against its predecessor, its successor and a small number, the following component non-zero
			for arity := ar[0]; arity <= ar[1]; arity++ {
				var vals []string
				for ex := 1; ex <= 31; ex++ {
					vals = append(vals, strconv.FormatInt(int64(1)<<ex-1, 10))
					if ex < 31 {
						vals = append(vals, strconv.FormatInt(int64(1)<<ex, 10))
					}
				}
				vals = append(vals, gen.EncodingNums...)
				// carry sweep: an earlier component one larger in b, a LATER component of a equal to 2^e-1 / 2^e / 2^e+1
				// (e = 8..31) and 0 in b, everything after it smaller in b: a carry out of a packed field, or a
				// truncated field, must not outweigh the earlier component
				for pos := 0; pos < arity-1; pos++ {
					for later := pos + 1; later < arity; later++ {
						for ex := 8; ex <= 31; ex++ {
							for d := int64(-1); d <= 1; d++ {
								n := int64(1)<<ex + d
								if n > 1<<31-1 {
									continue
								}
								a, b := make([]string, arity), make([]string, arity)
								for x := range a {
									a[x], b[x] = "1", "1"
									if x > later {
										a[x], b[x] = "5", "3"
									}
								}
								a[pos], b[pos] = "1", "2"
								a[later], b[later] = strconv.FormatInt(n, 10), "0"
								as, bs := strings.Join(a, "."), strings.Join(b, ".")
								w.Count("evaluations", 1)
								w.Count("carry_sweep_pairs", 1)
								rep(evalC03(c, e, "tuple-order", []string{as, bs}))
							}
						}
					}
				}
				for pos := 0; pos < arity; pos++ {
					for _, v := range vals {
						n, _ := strconv.ParseInt(v, 10, 64)
						a := make([]string, arity)
						for x := range a {
							a[x] = []string{"1", "2", "5"}[x%3]
						}
						a[pos] = v
						for _, o := range []int64{n - 1, n + 1, 5, n - 2048, n + 2048, 65533} {
							if o < 0 || o > 1<<31-1 {
								continue
							}
							b := append([]string{}, a...)
							b[pos] = strconv.FormatInt(o, 10)
							as, bs := strings.Join(a, "."), strings.Join(b, ".")
							if e.Name == "github" && (ghDate.MatchString(as) || ghDate.MatchString(bs)) {
								continue
							}
							w.Count("evaluations", 1)
							w.Count("pow2_and_encoding_sweep_pairs", 1)
							rep(evalC03(c, e, "tuple-order", []string{as, bs}))
						}
					}
				}
			}
		}
		for arity := ar[0]; arity <= ar[1]; arity++ {
			for k := 0; k < 120; k++ {
				a := make([]string, arity)
				for x := range a {
					a[x] = val()
				}
				b := append([]string{}, a...)
				pos := -1
				switch r.IntN(5) {
				case 4: // an earlier component one larger, a LATER component of the smaller version huge: later
					// components must never bleed into earlier ones (packed sort keys, overflow, truncation)
					if arity >= 2 {
						pos = r.IntN(arity - 1)
						n, _ := strconv.ParseInt(a[pos], 10, 64)
						if n >= 1<<31-1 {
							n = 5
							a[pos] = "5"
						}
						b[pos] = strconv.FormatInt(n+1, 10)
						later := pos + 1 + r.IntN(arity-pos-1)
						a[later] = []string{"2147483647", "65536", "65535", "4294967295", "2147483648", "16777216", "1000000"}[r.IntN(7)]
						if r.IntN(2) == 0 { // every power of two and its neighbours: 2^k-1, 2^k, 2^k+1 for k = 8..30
							a[later] = strconv.FormatInt(int64(1)<<(8+r.IntN(23))+int64(r.IntN(3))-1, 10)
						}
						if a[later] == "4294967295" || a[later] == "2147483648" {
							a[later] = "2147483647"
						}
						b[later] = []string{"0", "1", a[later]}[r.IntN(3)]
						// the components after it: smaller in b half of the time (a carry out of a packed field must not be
						// decided by what follows)
						for x := later + 1; x < arity; x++ {
							if r.IntN(2) == 0 {
								a[x], b[x] = "5", "3"
							}
						}
					}
				case 0: // equal
				case 1, 2: // one component differs
					pos = r.IntN(arity)
					b[pos] = val()
				default: // several differ
					for x := range b {
						if r.IntN(2) == 0 {
							b[x] = val()
							if pos < 0 {
								pos = x
							}
						}
					}
				}
				if arity == 3 && r.IntN(10) == 0 {
					// calendar-shaped triples around a month end: (Y, M, 28..31) against the first days of the next month,
					// another day of the same month or the same day of a neighbouring month - plain integer tuples all the same
					y := []int{2023, 2024, 2000, 1900, 2100, 1999, 2025}[r.IntN(7)]
					m := 1 + r.IntN(12)
					d := 28 + r.IntN(4)
					a = []string{itoa(y), itoa(m), itoa(d)}
					switch r.IntN(4) {
					case 0, 1:
						if m == 12 {
							b = []string{itoa(y + 1), "1", itoa(1 + r.IntN(3))}
						} else {
							b = []string{itoa(y), itoa(m + 1), itoa(1 + r.IntN(3))}
						}
					case 2:
						b = []string{itoa(y), itoa(m), itoa(27 + r.IntN(5))}
					default:
						b = []string{itoa(y), itoa(1 + r.IntN(12)), itoa(d)}
					}
					if r.IntN(2) == 0 {
						a, b = b, a
					}
					w.Count("calendar_shaped_pairs", 1)
				}
				as, bs := strings.Join(a, "."), strings.Join(b, ".")
				w.Count("evaluations", 1)
				w.Count("events:Compare", 1)
				rep(evalC03(c, e, "tuple-order", []string{as, bs}))
				w.NT(core.Hash64(e.Name, "tuple", itoa(arity), itoa(firstDiff(a, b)), itoa(tupleCmp(as, bs))))
				if k < 40 {
					if e.Name == "github" && ghDate.MatchString(as) {
						continue
					}
					for _, m := range ms.Pre {
						w.Count("evaluations", 1)
						vs := evalC03(c, e, "marker", []string{as, as + m, "pre"})
						if v, _, _ := e.SafeNewVersion(as + m); v != nil {
							w.Count("marker-accepted", 1)
							w.NT(core.Hash64(e.Name, "pre", itoa(arity), m))
						} else {
							w.Count("marker-not-accepted", 1)
						}
						rep(vs)
					}
					for _, m := range ms.Post {
						w.Count("evaluations", 1)
						vs := evalC03(c, e, "marker", []string{as, as + m, "post"})
						if v, _, _ := e.SafeNewVersion(as + m); v != nil {
							w.Count("marker-accepted", 1)
							w.NT(core.Hash64(e.Name, "post", itoa(arity), m))
						} else {
							w.Count("marker-not-accepted", 1)
						}
						rep(vs)
					}
				}
			}
		}
		w.Sample(map[string]any{"eco": e.Name, "arity": ar, "pre_markers": ms.Pre, "post_markers": ms.Post})
	})
}

func firstDiff(a, b []string) int {
	for i := range a {
		if a[i] != b[i] {
			return i
		}
	}
	return -1
}
