package checks

import (
	"strings"

	"verif/harness/core"
	"verif/harness/eco"
)

func init() {
	ck := &Check{
		ID: "C04",
		Rule: "per scheme: every well-formed comparator shape with 1..k constraints (grammar [<|<=]((>|>=)(<|<=))*[>|>=] with = and != inserted at every position; " +
			"quick k<=3 exhaustive + sampled k=4..5, thorough k<=5 exhaustive + sampled k=6..8) over strictly increasing chains of distinct versions drawn from a pool; " +
			"probes = every pool member (the bounds, Compare-equal respellings of the bounds, neighbours, interior and exterior points); vers.Contains is compared with the " +
			"union-of-intervals denotation computed with the scheme ecosystem's own Compare (pypi: PEP 440 pre-release default applied). " +
			"Non-trivial = distinct (scheme, shape, probe position relative to the bounds)",
		Assumptions: []string{"checks/vers.go denotation follows the VERS spec's interval reading", "Compare of the scheme's ecosystem is the order (pools whose chain is not strictly ordered are skipped and counted)"},
		MinEvals:    50000,
	}
	ck.Eval = evalC04
	ck.Run = func(c *core.Ctx) { runC04(c, ck) }
	register(ck)
}

// evalC04: op "vers", args [rangeText, probe].
func evalC04(c *core.Ctx, _ *eco.Eco, op string, args []string) []core.Violation {
	if len(args) < 2 {
		return nil
	}
	text, probe := args[0], args[1]
	scheme, cons, star, ok := parseVersText(text)
	if !ok {
		return nil
	}
	en, ok := SchemeEco[scheme]
	if !ok {
		return nil
	}
	e := eco.ByName(en)
	mk := func(rule, got, want string) []core.Violation {
		return []core.Violation{{Eco: "vers", Op: "vers", Args: []string{text, probe}, Rule: rule, Got: got, Want: want}}
	}
	pv, err, pn := e.SafeNewVersion(probe)
	if pn != nil || err != nil || pv == nil {
		return nil
	}
	var want bool
	var rule string
	if star && len(cons) == 0 {
		want, rule = true, "vers/star"
	} else if star {
		return nil
	} else {
		var wf bool
		want, wf, rule = versDenote(e, cons, pv)
		if !wf {
			return nil
		}
		if scheme == "pypi" {
			gated, dec := pypiGate(cons, probe)
			if !dec {
				return nil
			}
			if gated {
				want, rule = false, "vers/pypi-prerelease-gate"
			}
		}
	}
	got, err, pn := eco.SafeVersContains(text, probe)
	if pn != nil {
		return mk("panic", pn.Value, "")
	}
	if err != nil {
		return mk(rule+"+error", "error: "+err.Error(), b2s(want))
	}
	if got != want {
		return mk(rule, b2s(got), b2s(want))
	}
	return nil
}

var versOps = []string{"=", "!=", ">", ">=", "<", "<="}

// versShapes enumerates all well-formed comparator sequences of length k.
func versShapes(k int) [][]string {
	var out [][]string
	var rec func(cur []string, last int) // last: 0 none, 1 lower, 2 upper
	rec = func(cur []string, last int) {
		if len(cur) == k {
			out = append(out, append([]string{}, cur...))
			return
		}
		for _, o := range versOps {
			switch o {
			case "=", "!=":
				rec(append(cur, o), last)
			case ">", ">=":
				if last != 1 {
					rec(append(cur, o), 1)
				}
			default:
				if last != 2 {
					rec(append(cur, o), 2)
				}
			}
		}
	}
	rec(nil, 0)
	return out
}

func embeddable(s string) bool {
	if s == "" || strings.ContainsAny(s[:1], "<>=!*") {
		return false
	}
	for i := 0; i < len(s); i++ {
		if s[i] <= 32 || s[i] > 126 || s[i] == '|' {
			return false
		}
	}
	return true
}

func runC04(c *core.Ctx, ck *Check) {
	evalWitnesses(c, ck)
	pools := c.Scale(2, 12)
	exhaustK := c.Scale(3, 5)
	maxK := c.Scale(5, 8)
	sampled := c.Scale(150, 1500)
	type job struct {
		scheme string
		k      int
	}
	var jobs []job
	for _, s := range Schemes {
		for k := 0; k < pools; k++ {
			jobs = append(jobs, job{s, k})
		}
	}
	shapeCache := map[int][][]string{}
	for k := 1; k <= maxK; k++ {
		shapeCache[k] = versShapes(k)
	}
	c.Parallel(len(jobs), func(w *core.W, i int) {
		j := jobs[i]
		e := eco.ByName(SchemeEco[j.scheme])
		r := c.Rand("c04", j.scheme, itoa(j.k))
		raw := BuildPool(e, r, 90, w)
		p := &Pool{Eco: e}
		for x, s := range raw.Strs {
			if embeddable(s) {
				if j.scheme == "pypi" {
					if _, dec := pypiGate(nil, s); !dec {
						continue
					}
				}
				p.Strs, p.Vers = append(p.Strs, s), append(p.Vers, raw.Vers[x])
			}
		}
		// chain of distinct classes
		idx := p.SortedIdx()
		var chain []int
		for _, x := range idx {
			if len(chain) == 0 {
				chain = append(chain, x)
				continue
			}
			if cv, pn := eco.SafeCompare(p.Vers[chain[len(chain)-1]], p.Vers[x]); pn == nil && cv < 0 {
				chain = append(chain, x)
			}
		}
		strict := true
		for a := 0; a < len(chain) && strict; a++ {
			for b := a + 1; b < len(chain); b++ {
				if cv, pn := eco.SafeCompare(p.Vers[chain[a]], p.Vers[chain[b]]); pn != nil || cv >= 0 {
					strict = false
					break
				}
			}
		}
		if !strict {
			// keep going: versDenote re-validates each chosen constraint set and skips non-chains
			w.Count("pools_with_unordered_chain", 1)
		}
		if len(chain) < maxK+2 {
			w.Count("pools_too_small", 1)
			return
		}
		reported := map[string]int{}
		runShape := func(shape []string) {
			k := len(shape)
			// choose k increasing chain positions; adjacent picks half of the time
			pos := make([]int, 0, k)
			if r.IntN(2) == 0 {
				start := r.IntN(len(chain) - k + 1)
				for x := 0; x < k; x++ {
					pos = append(pos, start+x)
				}
			} else {
				perm := r.Perm(len(chain))[:k]
				sortInts(perm)
				pos = perm
			}
			var parts []string
			cons := make([]versCons, k)
			for x := 0; x < k; x++ {
				s := p.Strs[chain[pos[x]]]
				parts = append(parts, shape[x]+s)
				cons[x] = versCons{op: shape[x], txt: s}
			}
			text := "vers:" + j.scheme + "/" + strings.Join(parts, "|")
			shapeKey := strings.Join(shape, "")
			if r.IntN(4) == 0 {
				// a rejected sibling first (the same constraints plus one the ecosystem rejects): a failed evaluation must
				// leave nothing behind that the next evaluation can see
				eco.SafeVersContains(text+"|"+shape[k-1]+p.Strs[chain[pos[k-1]]]+[]string{"-", "..", "@@"}[r.IntN(3)], p.Strs[r.IntN(len(p.Strs))])
				w.Count("rejected_sibling_pretouches", 1)
			}
			if r.IntN(2) == 0 {
				// the same constraint text is first seen under another scheme (state kept between calls, e.g. a
				// cache keyed on the text alone, must not influence this scheme's answer); sorted order of THIS
				// scheme is usually not the sorted order of the other one
				other := Schemes[r.IntN(len(Schemes))]
				if other != j.scheme {
					eco.SafeVersContains("vers:"+other+"/"+strings.Join(parts, "|"), p.Strs[r.IntN(len(p.Strs))])
					w.Count("foreign_scheme_pretouches", 1)
				}
			}
			for pi := range p.Strs {
				want, wf, rule := versDenote(e, cons, p.Vers[pi])
				if !wf {
					w.Count("skipped_not_wellformed", 1)
					return
				}
				if j.scheme == "pypi" {
					if gated, _ := pypiGate(cons, p.Strs[pi]); gated {
						want, rule = false, "vers/pypi-prerelease-gate"
					}
				}
				got, err, pn := eco.SafeVersContains(text, p.Strs[pi])
				w.Count("evaluations", 1)
				w.Count("rule:"+rule, 1)
				// probe position relative to bounds
				rel := 0
				for x := 0; x < k; x++ {
					cv, _ := eco.SafeCompare(p.Vers[pi], p.Vers[chain[pos[x]]])
					rel = rel*3 + sgn(cv) + 1
				}
				w.NT(core.Hash64(j.scheme, shapeKey, itoa(rel)))
				if pn != nil || err != nil || got != want {
					if reported[shapeKey] < 2 && reported["#"+rule] < 6 {
						reported[shapeKey]++
						reported["#"+rule]++
						for _, v := range evalC04(c, nil, "vers", []string{text, p.Strs[pi]}) {
							w.Report(v)
						}
					}
					w.Count("wrong_answers", 1)
				}
			}
			// a rejected range that EXCLUDES the probe, then the question itself: what the failed evaluation collected (parsed
			// exclusions, scratch sets taken from a pool) must not be visible to the next evaluation
			for n := 0; n < 3; n++ {
				pr := p.Strs[r.IntN(len(p.Strs))]
				if !embeddable(pr) {
					continue
				}
				bad := []string{"2.0.0", "not a version!", "<", "1..2", ">=@@"}[r.IntN(5)] // no comparator / rejected version / no version
				eco.SafeVersContains("vers:"+j.scheme+"/!="+pr+"|"+bad, pr)
				w.Count("evaluations", 1)
				w.Count("rejected_exclusion_pretouches", 1)
				for _, v := range evalC04(c, nil, "vers", []string{text, pr}) {
					if reported["after-rejected"] < 3 {
						reported["after-rejected"]++
						v.Rule += ":after-a-rejected-range-that-excluded-the-probe"
						w.Report(v)
					}
				}
			}
			// twin questions (same concatenation of the two argument texts, split elsewhere), asked right after the
			// original and judged by the same oracle
			for n := 0; n < 3; n++ {
				pr := p.Strs[r.IntN(len(p.Strs))]
				for _, tq := range twinQuestions(text, pr) {
					eco.SafeVersContains(text, pr)
					w.Count("evaluations", 1)
					w.Count("twin_questions", 1)
					for _, v := range evalC04(c, nil, "vers", []string{tq[0], tq[1]}) {
						if reported["twin"] < 3 {
							reported["twin"]++
							w.Report(v)
						}
					}
				}
			}
			w.Count("events:VersContains", int64(len(p.Strs)))
			w.Count("shapes_k"+itoa(k), 1)
		}
		for k := 1; k <= exhaustK; k++ {
			for _, sh := range shapeCache[k] {
				runShape(sh)
			}
		}
		for n := 0; n < sampled; n++ {
			k := exhaustK + 1 + r.IntN(maxK-exhaustK)
			runShape(shapeCache[k][r.IntN(len(shapeCache[k]))])
		}
		// star
		for pi := range p.Strs {
			w.Count("evaluations", 1)
			for _, v := range evalC04(c, nil, "vers", []string{"vers:" + j.scheme + "/*", p.Strs[pi]}) {
				w.Report(v)
			}
		}
		w.Sample(map[string]any{"scheme": j.scheme, "probes": len(p.Strs), "chain_classes": len(chain), "example": "vers:" + j.scheme + "/>=" + p.Strs[chain[0]] + "|<" + p.Strs[chain[1]]})
	})
}

func sortInts(s []int) {
	for i := 1; i < len(s); i++ {
		for j := i; j > 0 && s[j] < s[j-1]; j-- {
			s[j], s[j-1] = s[j-1], s[j]
		}
	}
}
