package checks

import (
	"fmt"
	"math/rand/v2"
	"regexp"
	"strconv"
	"strings"

	"verif/harness/core"
	"verif/harness/eco"
	"verif/harness/gen"
	"verif/harness/ref"
)

// C05: shorthand operators denote their documented intervals. The oracle table below is Appendix A
// of DESIGN.md in executable form: each generator turns a base into (range text, documented
// intervals, unclaimed zone, claim kind). Membership in an interval is decided with the
// ecosystem's own Compare on lo/hi strings parsed by the same ecosystem.

type shCase struct {
	text  string // range text
	form  string // table row id
	ivs   string // intervals, e.g. "[1.2.3,2.0.0-0)" or "(,1.0];[1.2,)" ; prefix "!" = complement ; "*" = everything
	zone  string // unclaimed zone id
	claim string // must | ifaccepted
}

func init() {
	ck := &Check{
		ID: "C05",
		Rule: "for every documented (ecosystem, shorthand construct, base arity) of the oracle table (DESIGN.md Appendix A): bases over all arities with zeros in every leading " +
			"position, boundary numbers and pre-release bases; probes concentrated on both ends (base, just below base, last version before the upper bound, the upper bound, " +
			"pre-releases of the upper bound) plus interior/exterior points and pool members; Contains must equal membership in the documented interval(s), decided with the " +
			"ecosystem's own Compare; a parse failure of a claimed form is a violation. Non-trivial = distinct (ecosystem, form, zero-pattern of the base, probe zone)",
		Assumptions: []string{"the interval table in checks/c05.go written from upstream documentation (node-semver README, Cargo book, Composer docs, Conan 2 docs, RubyGems guides, hexdocs, PEP 440, NuGet docs, Maven POM reference)",
			"unclaimed zones return no verdict (composer non-stable probes, pypi pre/dev probes, pre-releases of the upper bound where upstream excludes them)"},
		MinEvals: 30000,
	}
	ck.Eval = evalC05
	ck.Run = func(c *core.Ctx) { runC05(c, ck) }
	register(ck)
}

type iv struct {
	lo, hi         string
	loIncl, hiIncl bool
}

func parseIvs(s string) (ivs []iv, negate, all bool) {
	if strings.HasPrefix(s, "!") {
		negate, s = true, s[1:]
	}
	if s == "*" {
		return nil, negate, true
	}
	for _, p := range strings.Split(s, ";") {
		if len(p) < 3 {
			continue
		}
		k := strings.IndexByte(p, ',')
		if k < 0 {
			continue
		}
		ivs = append(ivs, iv{lo: p[1:k], hi: p[k+1 : len(p)-1], loIncl: p[0] == '[', hiIncl: p[len(p)-1] == ']'})
	}
	return
}

var plainNumeric = regexp.MustCompile(`^v?[0-9]+(\.[0-9]+)*$`)

func coreEq(a, b string) bool {
	ca, _ := ref.SemverSplit(a)
	cb, _ := ref.SemverSplit(b)
	for i := 0; i < len(ca) || i < len(cb); i++ {
		x, y := "0", "0"
		if i < len(ca) {
			x = ca[i]
		}
		if i < len(cb) {
			y = cb[i]
		}
		if !ref.AllDigits(x) || !ref.AllDigits(y) || ref.NumCmp(x, y) != 0 {
			return false
		}
	}
	return true
}

func hasPre(s string) bool { _, p := ref.SemverSplit(s); return len(p) > 0 }

var gemLetter = regexp.MustCompile(`[A-Za-z-]`) // a letter or a dash (= ".pre.") starts the pre-release part

func gemNumPrefix(s string) string {
	s = strings.TrimPrefix(s, "v")
	if k := gemLetter.FindStringIndex(s); k != nil {
		s = s[:k[0]]
	}
	s = strings.TrimRight(s, ".-")
	parts := strings.Split(s, ".")
	for i, p := range parts { // numeric value, not spelling: 01 == 1
		p = strings.TrimLeft(p, "0")
		if p == "" {
			p = "0"
		}
		parts[i] = p
	}
	for len(parts) > 1 && parts[len(parts)-1] == "0" {
		parts = parts[:len(parts)-1]
	}
	return strings.Join(parts, ".")
}

// inZone reports whether the probe lies in the unclaimed zone of the case.
func inZone(ecoName, zone, probe string, ivs []iv) bool {
	for _, z := range strings.Split(zone, "+") {
		switch z {
		case "no-pre-of-hi":
			for _, i := range ivs {
				if i.hi != "" && hasPre(probe) && coreEq(probe, i.hi) {
					return true
				}
			}
		case "no-pre-of-lo":
			for _, i := range ivs {
				if i.lo != "" && hasPre(probe) && coreEq(probe, i.lo) {
					return true
				}
			}
		case "no-pre":
			if hasPre(probe) {
				return true
			}
		case "stable-only":
			if !plainNumeric.MatchString(probe) {
				return true
			}
		case "final-post-only":
			p := ref.PepParse(probe)
			if p == nil || p.IsPrerelease() || p.Epoch != "0" || p.HasLoc {
				return true
			}
		case "gem-no-pre-of-hi":
			if gemLetter.MatchString(probe) {
				for _, i := range ivs {
					if i.hi != "" && gemNumPrefix(probe) == gemNumPrefix(i.hi) {
						return true
					}
				}
			}
		}
	}
	return false
}

// evalC05: op "shorthand", args [rangeText, probe, form, intervals, zone, claim].
func evalC05(c *core.Ctx, e *eco.Eco, op string, args []string) []core.Violation {
	if e == nil || len(args) < 6 {
		return nil
	}
	if op == "shorthand-after-volume" && len(args) >= 7 {
		v, _ := strconv.Atoi(args[6])
		return c05Volume(c, c.NewW(), e, v)
	}
	text, probe, form, ivsS, zone, claim := args[0], args[1], args[2], args[3], args[4], args[5]
	mk := func(rule, got, want string) []core.Violation {
		return []core.Violation{{Eco: e.Name, Op: "shorthand", Args: args[:6], Rule: form + ":" + rule, Got: got, Want: want}}
	}
	r, err, pn := e.SafeNewRange(text)
	if pn != nil {
		return mk("panic", pn.Value, "")
	}
	if err != nil || r == nil {
		if claim == "must" {
			return mk("parse", "error: "+errStr(err), "accepted")
		}
		return nil
	}
	pv, err, pn := e.SafeNewVersion(probe)
	if pn != nil || err != nil || pv == nil {
		return nil
	}
	ivs, negate, all := parseIvs(ivsS)
	if inZone(e.Name, zone, probe, ivs) {
		return nil
	}
	want := all
	zoneName := "outside"
	for _, i := range ivs {
		ok := true
		if i.lo != "" {
			lv, err, pn := e.SafeNewVersion(i.lo)
			if pn != nil || err != nil || lv == nil {
				return nil // documented bound not expressible in this ecosystem: nothing asserted
			}
			cv, pn := eco.SafeCompare(pv, lv)
			if pn != nil {
				return nil
			}
			ok = ok && (cv > 0 || (cv == 0 && i.loIncl))
			if cv == 0 {
				zoneName = "at-lo"
			}
		}
		if i.hi != "" {
			hv, err, pn := e.SafeNewVersion(i.hi)
			if pn != nil || err != nil || hv == nil {
				return nil
			}
			cv, pn := eco.SafeCompare(pv, hv)
			if pn != nil {
				return nil
			}
			ok = ok && (cv < 0 || (cv == 0 && i.hiIncl))
			if cv == 0 {
				zoneName = "at-hi"
			}
		}
		if ok {
			want = true
		}
	}
	if negate {
		want = !want
	}
	got, pn := eco.SafeContains(r, pv)
	if pn != nil {
		return mk("panic", pn.Value, "")
	}
	if got != want {
		return mk("membership-"+zoneName, b2s(got), b2s(want))
	}
	return nil
}

// ---------------------------------------------------------------------------------------------
// oracle table

func j3(x, y, z int) string { return fmt.Sprintf("%d.%d.%d", x, y, z) }

type base3 struct {
	x, y, z int
	arity   int    // 1..3 (4 for gem)
	w       int    // 4th component (gem)
	pre     string // pre-release suffix including its leading separator, or ""
}

func (b base3) str() string {
	s := strconv.Itoa(b.x)
	if b.arity >= 2 {
		s += "." + strconv.Itoa(b.y)
	}
	if b.arity >= 3 {
		s += "." + strconv.Itoa(b.z)
	}
	if b.arity >= 4 {
		s += "." + strconv.Itoa(b.w)
	}
	return s + b.pre
}
func (b base3) padded() string { return j3(b.x, b.y, b.z) + b.pre }

func shorthandCases(ecoName string, b base3) []shCase {
	var out []shCase
	add := func(text, form, ivs, zone, claim string) {
		out = append(out, shCase{text: text, form: form, ivs: ivs, zone: zone, claim: claim})
	}
	x, y, z := b.x, b.y, b.z
	s := b.str()
	switch ecoName {
	case "npm":
		lo := b.padded()
		caretHi := func() string {
			switch {
			case x > 0:
				return j3(x+1, 0, 0) + "-0"
			case b.arity == 1:
				return "1.0.0-0"
			case y > 0:
				return j3(0, y+1, 0) + "-0"
			case b.arity == 2:
				return "0.1.0-0"
			default:
				return j3(0, 0, z+1) + "-0"
			}
		}
		tildeHi := j3(x, y+1, 0) + "-0"
		if b.arity == 1 {
			tildeHi = j3(x+1, 0, 0) + "-0"
		}
		if b.arity == 3 {
			add("^"+s, "npm-caret-full", "["+lo+","+caretHi()+")", "", "must")
			add("~"+s, "npm-tilde-full", "["+lo+","+tildeHi+")", "", "must")
		} else if b.pre == "" {
			add("^"+s, "npm-caret-partial", "["+lo+","+caretHi()+")", "", "must")
			add("~"+s, "npm-tilde-partial", "["+lo+","+tildeHi+")", "", "must")
		}
		if b.pre == "" {
			switch b.arity {
			case 1:
				for _, wc := range []string{"x", "X", "*"} {
					add(s+"."+wc, "npm-xrange-major", "["+j3(x, 0, 0)+","+j3(x+1, 0, 0)+"-0)", "no-pre-of-lo", "must")
				}
			case 2:
				for _, wc := range []string{"x", "X", "*"} {
					add(s+"."+wc, "npm-xrange-minor", "["+j3(x, y, 0)+","+j3(x, y+1, 0)+"-0)", "no-pre-of-lo", "must")
				}
			case 3:
				add("*", "npm-star", "*", "", "must")
				add(j3(x, y, z)+" - "+j3(x+1, y, z+2), "npm-hyphen-full", "["+j3(x, y, z)+","+j3(x+1, y, z+2)+"]", "", "must")
				add(j3(x, y, z)+" - "+fmt.Sprintf("%d.%d", x+1, y), "npm-hyphen-partial", "["+j3(x, y, z)+","+j3(x+1, y+1, 0)+"-0)", "", "ifaccepted")
				add(j3(x, y, z)+" - "+fmt.Sprintf("%d", x+1), "npm-hyphen-partial", "["+j3(x, y, z)+","+j3(x+2, 0, 0)+"-0)", "", "ifaccepted")
			}
		}
	case "cargo":
		lo := b.padded()
		var hi string
		switch {
		case x > 0:
			hi = j3(x+1, 0, 0)
		case b.arity == 1:
			hi = "1.0.0"
		case y > 0:
			hi = j3(0, y+1, 0)
		case b.arity == 2:
			hi = "0.1.0"
		default:
			hi = j3(0, 0, z+1)
		}
		if b.pre == "" || b.arity == 3 {
			add("^"+s, "cargo-caret-arity"+itoa(b.arity), "["+lo+","+hi+"-0)", "", "must")
			thi := j3(x, y+1, 0)
			if b.arity == 1 {
				thi = j3(x+1, 0, 0)
			}
			add("~"+s, "cargo-tilde-arity"+itoa(b.arity), "["+lo+","+thi+"-0)", "", "must")
		}
		if b.pre == "" {
			switch b.arity {
			case 1:
				add(s+".*", "cargo-wildcard-major", "["+j3(x, 0, 0)+","+j3(x+1, 0, 0)+"-0)", "", "must")
			case 2:
				add(s+".*", "cargo-wildcard-minor", "["+j3(x, y, 0)+","+j3(x, y+1, 0)+"-0)", "", "must")
			case 3:
				add("*", "cargo-star", "*", "no-pre", "must")
			}
		}
	case "composer":
		if b.pre != "" {
			// a stability suffix on the base does not change which component the operator bumps ("~1.2-beta.1" is
			// >=1.2-beta.1 <2.0.0 just as "~1.2"); probes are stable versions only (zone stable-only)
			switch b.arity {
			case 2:
				add("~"+s, "composer-tilde-2-pre", "["+s+","+j3(x+1, 0, 0)+")", "stable-only", "must")
			case 3:
				add("~"+s, "composer-tilde-3-pre", "["+s+","+j3(x, y+1, 0)+")", "stable-only", "must")
			}
			if x > 0 {
				add("^"+s, "composer-caret-pre", "["+s+","+j3(x+1, 0, 0)+")", "stable-only", "must")
			}
			return out
		}
		lo := j3(x, y, z)
		switch {
		case x > 0:
			add("^"+s, "composer-caret", "["+lo+","+j3(x+1, 0, 0)+")", "stable-only", "must")
		case y > 0 && b.arity >= 2:
			add("^"+s, "composer-caret-0y", "["+lo+","+j3(0, y+1, 0)+")", "stable-only", "must")
		case b.arity == 3:
			add("^"+s, "composer-caret-00z", "["+lo+","+j3(0, 0, z+1)+")", "stable-only", "must")
		}
		switch b.arity {
		case 1:
			add("~"+s, "composer-tilde-1", "["+lo+","+j3(x+1, 0, 0)+")", "stable-only", "must")
			for _, wc := range []string{"*", "x"} {
				add(s+"."+wc, "composer-wildcard-major", "["+j3(x, 0, 0)+","+j3(x+1, 0, 0)+")", "stable-only", "must")
			}
		case 2:
			add("~"+s, "composer-tilde-2", "["+lo+","+j3(x+1, 0, 0)+")", "stable-only", "must")
			for _, wc := range []string{"*", "x"} {
				add(s+"."+wc, "composer-wildcard-minor", "["+j3(x, y, 0)+","+j3(x, y+1, 0)+")", "stable-only", "must")
			}
			add(s+" - "+fmt.Sprintf("%d.%d", x+1, y), "composer-hyphen-partial", "["+lo+","+j3(x+1, y+1, 0)+")", "stable-only", "must")
			// an upper bound with a patch-level suffix is taken as written (inclusive), however few components it has
			for _, sfx := range []string{"-patch1", "pl3", "-patch"} {
				hi := fmt.Sprintf("%d.%d", x+1, y) + sfx
				add(s+" - "+hi, "composer-hyphen-suffixed-upper", "["+lo+","+hi+"]", "stable-only", "must")
			}
		case 3:
			add("~"+s, "composer-tilde-3", "["+lo+","+j3(x, y+1, 0)+")", "stable-only", "must")
			add(s+" - "+j3(x+1, y, z+2), "composer-hyphen-full", "["+lo+","+j3(x+1, y, z+2)+"]", "stable-only", "must")
			add(s+" - "+fmt.Sprintf("%d.%d", x+1, y), "composer-hyphen-partial", "["+lo+","+j3(x+1, y+1, 0)+")", "stable-only", "must")
		}
	case "conan":
		if b.pre != "" {
			return nil
		}
		switch b.arity {
		case 1:
			add("~"+s, "conan-tilde-1", "["+s+","+itoa(x+1)+"-0)", "", "must")
		default:
			add("~"+s, "conan-tilde-"+itoa(b.arity), "["+s+","+fmt.Sprintf("%d.%d", x, y+1)+"-0)", "", "must")
		}
		switch {
		case x > 0:
			add("^"+s, "conan-caret", "["+s+","+itoa(x+1)+"-0)", "", "must")
		case y > 0 && b.arity >= 2:
			add("^"+s, "conan-caret-0y", "["+s+","+fmt.Sprintf("0.%d", y+1)+"-0)", "", "must")
		}
	case "gem":
		zone := "gem-no-pre-of-hi"
		switch {
		case b.pre != "" && b.arity >= 2:
			// bump of the numeric prefix: drop the last numeric segment, increment the new last
			hi := ""
			switch b.arity {
			case 2:
				hi = itoa(x + 1)
			case 3:
				hi = fmt.Sprintf("%d.%d", x, y+1)
			case 4:
				hi = fmt.Sprintf("%d.%d.%d", x, y, z+1)
			}
			add("~> "+s, "gem-pessimistic-pre-arity"+itoa(b.arity), "["+s+","+hi+")", zone, "must")
		case b.pre != "":
		case b.arity == 1:
			add("~> "+s, "gem-pessimistic-1", "["+s+","+itoa(x+1)+")", zone, "must")
			add("~>"+s, "gem-pessimistic-1", "["+s+","+itoa(x+1)+")", zone, "must")
		case b.arity == 2:
			add("~> "+s, "gem-pessimistic-2", "["+s+","+fmt.Sprintf("%d.0", x+1)+")", zone, "must")
		case b.arity == 3:
			add("~> "+s, "gem-pessimistic-3", "["+s+","+fmt.Sprintf("%d.%d", x, y+1)+")", zone, "must")
			add("~>"+s, "gem-pessimistic-3", "["+s+","+fmt.Sprintf("%d.%d", x, y+1)+")", zone, "must")
		case b.arity == 4:
			add("~> "+s, "gem-pessimistic-4", "["+s+","+fmt.Sprintf("%d.%d.%d", x, y, z+1)+")", zone, "must")
		}
	case "hex":
		switch {
		case b.arity == 2 && b.pre == "":
			add("~> "+s, "hex-pessimistic-2", "["+j3(x, y, 0)+","+j3(x+1, 0, 0)+")", "no-pre-of-hi", "must")
			add("~>"+s, "hex-pessimistic-2", "["+j3(x, y, 0)+","+j3(x+1, 0, 0)+")", "no-pre-of-hi", "must")
		case b.arity == 3:
			add("~> "+s, "hex-pessimistic-3", "["+s+","+j3(x, y+1, 0)+")", "no-pre-of-hi", "must")
		}
	case "pypi":
		zone := "final-post-only"
		switch b.arity {
		case 2:
			add("~="+s, "pypi-compatible-2", "["+s+","+itoa(x+1)+")", zone, "must")
		case 3:
			add("~="+s, "pypi-compatible-3", "["+s+","+fmt.Sprintf("%d.%d", x, y+1)+")", zone, "must")
		case 4:
			add("~="+s, "pypi-compatible-4", "["+s+","+fmt.Sprintf("%d.%d.%d", x, y, z+1)+")", zone, "must")
		}
		if b.pre == "" {
			var hi string
			switch b.arity {
			case 1:
				hi = itoa(x + 1)
			case 2:
				hi = fmt.Sprintf("%d.%d", x, y+1)
			case 3:
				hi = fmt.Sprintf("%d.%d.%d", x, y, z+1)
			case 4:
				hi = fmt.Sprintf("%d.%d.%d.%d", x, y, z, b.w+1)
			}
			add("=="+s+".*", "pypi-prefix-match-"+itoa(b.arity), "["+s+","+hi+")", zone, "must")
			add("!="+s+".*", "pypi-prefix-exclude-"+itoa(b.arity), "!["+s+","+hi+")", zone, "must")
		}
	}
	return out
}

// bracketCases builds nuget / maven interval forms over two pool versions a < b.
func bracketCases(ecoName, a, b string) []shCase {
	var out []shCase
	add := func(text, form, ivs, claim string) {
		out = append(out, shCase{text: text, form: form, ivs: ivs, claim: claim})
	}
	for _, f := range [][3]string{{"[", "]", "closed"}, {"(", ")", "open"}, {"[", ")", "half-open-right"}, {"(", "]", "half-open-left"}} {
		add(f[0]+a+","+b+f[1], ecoName+"-bracket-"+f[2], f[0]+a+","+b+f[1], "must")
		add(f[0]+a+", "+b+f[1], ecoName+"-bracket-"+f[2], f[0]+a+","+b+f[1], "must")
	}
	add("["+a+"]", ecoName+"-bracket-exact", "["+a+","+a+"]", "must")
	add("["+a+",)", ecoName+"-bracket-lower-incl", "["+a+",)", "must")
	add("("+a+",)", ecoName+"-bracket-lower-excl", "("+a+",)", "must")
	add("(,"+b+"]", ecoName+"-bracket-upper-incl", "(,"+b+"]", "must")
	add("(,"+b+")", ecoName+"-bracket-upper-excl", "(,"+b+")", "must")
	if ecoName == "nuget" {
		add(a, "nuget-bare-minimum", "["+a+",)", "must")
	}
	if ecoName == "maven" {
		add("(,"+a+"],["+b+",)", "maven-union", "(,"+a+"];["+b+",)", "must")
		add("(,"+a+"),("+a+",)", "maven-union-exclude-point", "(,"+a+");("+a+",)", "must")
		add("["+a+"],["+b+"]", "maven-union-points", "["+a+","+a+"];["+b+","+b+"]", "must")
	}
	return out
}

func shorthandProbes(ecoName string, b base3, r *rand.Rand) []string {
	var out []string
	tup := func(x, y, z int) {
		if x < 0 || y < 0 || z < 0 {
			return
		}
		switch ecoName {
		case "conan", "gem", "pypi", "composer":
			out = append(out, j3(x, y, z), fmt.Sprintf("%d.%d", x, y))
			if ecoName == "gem" || ecoName == "pypi" {
				out = append(out, fmt.Sprintf("%d.%d.%d.%d", x, y, z, b.w), fmt.Sprintf("%d.%d.%d.%d", x, y, z, b.w+1), fmt.Sprintf("%d.%d.%d.0", x, y, z))
			}
			if y == 0 && z == 0 {
				out = append(out, itoa(x))
			}
		default:
			out = append(out, j3(x, y, z))
		}
		var pres []string
		switch ecoName {
		case "npm", "cargo", "hex", "conan":
			pres = []string{"-alpha", "-0", "-rc.1"}
		case "gem":
			pres = []string{".rc1", "-alpha", ".a"}
		case "pypi":
			pres = []string{"a1", ".dev1", ".post1", "rc1"}
		case "composer":
			pres = []string{"-beta1", "-RC1"}
		}
		for _, p := range pres {
			out = append(out, j3(x, y, z)+p)
		}
	}
	x, y, z := b.x, b.y, b.z
	big := 99999
	for _, t := range [][3]int{{x, y, z}, {x, y, z - 1}, {x, y, z + 1}, {x, y - 1, big}, {x, y + 1, 0}, {x, y + 1, 1}, {x, y, big}, {x + 1, 0, 0}, {x + 1, 0, 1}, {x, big, big}, {x - 1, big, big},
		{x + 2, 0, 0}, {x + 1, y, z + 2}, {x + 1, y, z + 3}, {x + 1, y + 1, 0}, {x + 1, y, big}, {0, 0, 0}, {0, 0, z + 1}, {0, y + 1, 0}, {0, 1, 0}, {1, 0, 0}, {x, 0, 0}, {x, y, 0}, {x, y + 2, 3}, {0, 0, z}, {0, y, z}, {x + 1, y + 1, big}, {x + 2, 0, 1}} {
		tup(t[0], t[1], t[2])
	}
	if b.pre != "" {
		out = append(out, j3(x, y, z)+b.pre, j3(x, y, z)+b.pre+".1", j3(x, y, z)+b.pre+"1")
		// every proper prefix of the pre-release (identifier-wise) and its neighbours: a base whose pre-release is read
		// short (a trailing identifier taken for a wildcard, a separator taken for the end) lets these older versions in
		pre := b.pre
		for {
			i := strings.LastIndexAny(pre, ".-")
			if i <= 0 {
				break
			}
			pre = pre[:i]
			out = append(out, j3(x, y, z)+pre, j3(x, y, z)+pre+".0", j3(x, y, z)+pre+".1", j3(x, y, z)+pre+".99", j3(x, y, z)+pre+".a")
		}
		switch ecoName {
		case "npm", "cargo", "hex":
			out = append(out, j3(x, y, z)+"-alpha.1", j3(x, y, z)+"-alpha.2", j3(x, y, z)+"-alpha.3", j3(x, y, z)+"-beta", j3(x, y, z)+"-rc.1", j3(x, y, z)+"-rc.2")
		case "gem":
			out = append(out, b.str()+"1", j3(x, y, z)+".rc2", j3(x, y, z)+".rc1", j3(x, y, z)+".beta")
			// hyphen spellings ('-' reads as ".pre.") with fewer numeric segments than the base, next to their dotted equals
			out = append(out, fmt.Sprintf("%d.%d-1", x, y), fmt.Sprintf("%d.%d.pre.1", x, y), fmt.Sprintf("%d.%d.pre1", x, y), fmt.Sprintf("%d-1", x), fmt.Sprintf("%d.pre.1", x),
				fmt.Sprintf("%d.%d-1", x, y+1), fmt.Sprintf("%d.%d.%d-1", x, y, z), fmt.Sprintf("%d.%d.%d-9", x, y, z))
		case "pypi":
			out = append(out, b.str(), fmt.Sprintf("%d.%d", x, y+1))
		}
	}
	_ = r
	return out
}

func runC05(c *core.Ctx, ck *Check) {
	evalWitnesses(c, ck)
	vals := []int{0, 1, 2, 3, 9, 10, 99}
	type job struct {
		eco string
		k   int
	}
	var jobs []job
	rounds := c.Scale(6, 60)
	for _, n := range []string{"npm", "cargo", "composer", "conan", "gem", "hex", "pypi", "nuget", "maven"} {
		for k := 0; k < rounds; k++ {
			jobs = append(jobs, job{n, k})
		}
	}
	// state that builds up: V distinct shorthand constraints (every construct of the table on bases 5.<i>.3 / 5.<i> /
	// <i>, more than 2^16 at quick, 2^20 at thorough) are parsed and asked about their own base; then the FIRST ones are
	// judged again against the table (bound caches, parsed-range memo tables, rings that wrap)
	volEcos := []string{"npm", "cargo", "composer", "conan", "gem", "hex", "pypi"}
	c.Parallel(len(volEcos), func(w *core.W, i int) {
		for _, v := range c05Volume(c, w, eco.ByName(volEcos[i]), c.Scale(70000, 1100000)) {
			w.Report(v)
		}
	})
	c.Parallel(len(jobs), func(w *core.W, i int) {
		j := jobs[i]
		e := eco.ByName(j.eco)
		r := c.Rand("c05", j.eco, itoa(j.k))
		reported := map[string]int{}
		runCase := func(cs shCase, probes []string, zp string) {
			for _, pr := range probes {
				w.Count("evaluations", 1)
				vs := evalC05(c, e, "shorthand", []string{cs.text, pr, cs.form, cs.ivs, cs.zone, cs.claim})
				for _, v := range vs {
					if reported[v.Rule] < 3 {
						reported[v.Rule]++
						w.Report(v)
					}
					w.Count("wrong:"+cs.form, 1)
				}
			}
			w.Count("form:"+cs.form, 1)
			w.NT(core.Hash64(j.eco, cs.form, zp))
		}
		if j.eco == "nuget" || j.eco == "maven" {
			p := BuildPool(e, r, 120, w)
			var ok []int
			for x, s := range p.Strs {
				if embeddable(s) && !strings.ContainsAny(s, "[](),") {
					ok = append(ok, x)
				}
			}
			for k := 0; k < c.Scale(60, 120) && len(ok) > 4; k++ {
				a, b := ok[r.IntN(len(ok))], ok[r.IntN(len(ok))]
				cv, pn := eco.SafeCompare(p.Vers[a], p.Vers[b])
				if pn != nil || cv == 0 {
					continue
				}
				if cv > 0 {
					a, b = b, a
				}
				for _, cs := range bracketCases(j.eco, p.Strs[a], p.Strs[b]) {
					runCase(cs, p.Strs, "pool")
				}
				if k == 0 {
					w.Sample(map[string]any{"eco": j.eco, "range": "[" + p.Strs[a] + "," + p.Strs[b] + ")", "probes": len(p.Strs)})
				}
			}
			return
		}
		pool := BuildPool(e, r, 60, w)
		for n := 0; n < c.Scale(70, 150); n++ {
			comp := func() int {
				var s string
				switch r.IntN(14) {
				case 0, 4:
					s = gen.CarryNum(r) // 199, 2999, 1100: bumping a component must carry digit-exactly
				case 1:
					s = gen.DateNum(r, false)
				case 2:
					s = gen.EcoNum(j.eco, r)
				case 3:
					return r.IntN(10000)
				case 5:
					s = gen.LogNum(r, 30)
				default:
					return vals[r.IntN(len(vals))]
				}
				if n, err := strconv.Atoi(s); err == nil && n >= 0 && n < 1<<30 {
					return n
				}
				return vals[r.IntN(len(vals))]
			}
			b := base3{x: comp(), y: comp(), z: comp(), w: vals[r.IntN(4)], arity: 1 + r.IntN(3)}
			switch r.IntN(6) { // zeros in leading positions
			case 0:
				b.x = 0
			case 1:
				b.x, b.y = 0, 0
			case 2:
				b.y, b.z = 0, 0
			}
			if (j.eco == "gem" || j.eco == "pypi") && r.IntN(4) == 0 {
				b.arity = 4
			}
			if r.IntN(4) == 0 {
				switch j.eco {
				case "npm", "cargo", "hex":
					b.arity = 3
					b.pre = []string{"-alpha", "-alpha.2", "-rc.1", "-0", "-beta.1.x", "-rc.x", "-beta.X", "-alpha.2.x", "-x.1", "-1.x.2", "-rc.1.0"}[r.IntN(11)]
				case "composer":
					b.pre = []string{"-beta1", "-beta.1", "-RC1", "-rc.2", "-alpha", "-beta.10"}[r.IntN(6)]
				case "gem":
					b.pre = []string{".rc1", "-alpha", ".beta.2"}[r.IntN(3)]
				case "pypi":
					b.pre = []string{"a4", ".post3", "rc1", ".dev2"}[r.IntN(4)]
				}
			}
			if b.arity < 2 {
				b.y = 0
			}
			if b.arity < 3 {
				b.z = 0
			}
			if b.arity < 4 {
				b.w = 0
			}
			zp := fmt.Sprintf("%d%t%t%t%s", b.arity, b.x == 0, b.y == 0, b.z == 0, b.pre)
			cases := shorthandCases(j.eco, b)
			if len(cases) == 0 {
				continue
			}
			probes := append(shorthandProbes(j.eco, b, r), pool.Strs[:min(len(pool.Strs), 25)]...)
			for _, cs := range cases {
				runCase(cs, probes, zp)
			}
			if n == 0 {
				w.Sample(map[string]any{"eco": j.eco, "range": cases[0].text, "documented": cases[0].ivs, "unclaimed_zone": cases[0].zone, "probes": probes[:min(len(probes), 12)]})
			}
		}
	})
}

// c05Volume: the first 400 bases are judged against the table before and after V distinct shorthand constraints were
// parsed and used; a judgement that fails only afterwards is reported (op shorthand-after-volume).
func c05Volume(c *core.Ctx, w *core.W, e *eco.Eco, V int) []core.Violation {
	if thr := gen.DeltaThreshold(e.Name, 100000, uint64(c.Scale(3000000, 20000000))); thr > 0 && uint64(V) < thr*12/10 {
		V = int(thr * 12 / 10) // a size threshold written into the sources by a change: go above it
		w.Count("volume_raised_above_new_source_literal:"+e.Name, int64(thr))
	}
	mk := func(i int) base3 { return base3{x: 5, y: i, z: 3, arity: 2 + i%2} }
	judge := func() map[string]core.Violation {
		out := map[string]core.Violation{}
		for i := 0; i < 400; i++ {
			b := mk(i)
			for _, cs := range shorthandCases(e.Name, b) {
				for _, pr := range shorthandProbes(e.Name, b, nil) {
					w.Count("evaluations", 1)
					for _, v := range evalC05(c, e, "shorthand", []string{cs.text, pr, cs.form, cs.ivs, cs.zone, cs.claim}) {
						out[cs.text+"\x00"+pr+"\x00"+v.Rule] = v
					}
				}
			}
		}
		return out
	}
	before := judge()
	distinct := 0
	for i := 0; i < V; i++ {
		b := mk(i)
		for _, cs := range shorthandCases(e.Name, b) {
			rg, err, pn := e.SafeNewRange(cs.text)
			if pn != nil || err != nil || rg == nil {
				continue
			}
			distinct++
			if v, err, pn := e.SafeNewVersion(b.str()); pn == nil && err == nil && v != nil {
				eco.SafeContains(rg, v)
			}
		}
	}
	w.Count("volume_distinct_shorthand_constraints", int64(distinct))
	var out []core.Violation
	per := map[string]int{}
	for k, v := range judge() {
		if _, ordinary := before[k]; ordinary {
			continue
		}
		if per[v.Rule] < 2 {
			per[v.Rule]++
			v.Op, v.Rule = "shorthand-after-volume", "after-volume:"+v.Rule
			v.Args = append(append([]string{}, v.Args...), itoa(V))
			out = append(out, v)
		}
	}
	return out
}
