package checks

import (
	"encoding/json"
	"fmt"
	"os"
	"os/exec"
	"path/filepath"
	"regexp"
	"strconv"
	"strings"
	"sync"
	"sync/atomic"
	"syscall"
	"time"

	"verif/harness/core"
	"verif/harness/eco"
	"verif/harness/gen"
)

// C06: totality. Work is done in child processes (one worker goroutine + one CPU-budget monitor
// goroutine each); the parent aggregates their result files and attributes crashes.

func init() {
	ck := &Check{
		ID: "C06",
		Rule: "(1) exhaustive: ALL strings of length <= k over the 27-symbol syntax alphabet '0 1 9 a x v r . - _ + ~ ^ : ! = < > , | SPACE * [ ] ( ) @' (quick k=4: 551 880 strings, thorough k=5: 14.9 M) " +
			"through NewVersion and NewVersionRange of all 20 ecosystems and through vers.Contains (as constraint text of all 11 schemes, as whole range, and as probe); every accepted value is then compared with itself " +
			"and fixed others / range-tested against fixed probes and String()ed; (2) hostile byte-level mutations of generated valid strings (invalid UTF-8, NUL, controls, multi-byte runes) and size ladders up to 10^5 " +
			"characters under a CPU-time budget of 5 s + 20 ns*n^2 per call plus a growth-ratio monitor; hostile values are also compared with each other; (3) the built univers binary on hostile argument vectors (exit status in {0,1}, no signal, one line on success, no result on failure); " +
			"(4) native coverage-guided Go fuzzing (FuzzVersion, FuzzRange, FuzzVers) for a fixed number of executions. " +
			"Oracles: recover() at the call boundary (panic), value-xor-error, (true,err) from vers.Contains, CPU budget. Non-trivial = distinct (entry point, accepted | masked error-message template) pairs",
		Assumptions: []string{"CPU time from getrusage; no wall-clock verdicts", "a child that dies of a runtime fatal error is re-run in trace mode to attribute the input"},
		MinEvals:    1000000,
	}
	ck.Eval = evalC06
	ck.Run = func(c *core.Ctx) { runC06(c, ck) }
	register(ck)
}

const c06Alphabet = "019axvr.-_+~^:!=<>,| *[]()@"

// fixed partners per ecosystem (intended valid; only accepted ones are used)
var c06Partners = []string{"1.0.0", "1.2", "2.0.0-alpha.1", "0.0.1", "1.0.0+b", "10", "1.0-1", "1:1.0-r1", "1.0_p1", "1.0.0.rc1", "1.0~rc1", "v1.2.3", "2024.01.15", "1.0.0-rc1", "1.0a1", "0"}

type c06Eco struct {
	e        *eco.Eco
	partners []eco.Ver
	recent   []eco.Ver // ring of the most recently accepted hostile versions (compared with each other)
}

type c06State struct {
	ecos      []*c06Eco
	cur       atomic.Value // current input (string)
	partner   atomic.Value // second operand when two hostile values are compared with each other
	curEntry  atomic.Value
	counter   atomic.Int64
	evals     int64
	counters  map[string]int64
	templates map[string]struct{}
	viol      []core.Violation
	violSeen  map[string]int
}

func newC06State() *c06State {
	st := &c06State{counters: map[string]int64{}, templates: map[string]struct{}{}, violSeen: map[string]int{}}
	for _, e := range eco.All() {
		ce := &c06Eco{e: e}
		for _, p := range c06Partners {
			if v, err, pn := e.SafeNewVersion(p); pn == nil && err == nil && v != nil {
				ce.partners = append(ce.partners, v)
			}
		}
		st.ecos = append(st.ecos, ce)
	}
	return st
}

var maskWords = regexp.MustCompile(`[A-Za-z]{3,}`)

// maskMsg reduces an error message to its words of >= 3 letters after removing the input text: a cheap
// proxy for "which rejection branch fired".
func maskMsg(msg, input string) string {
	if input != "" {
		msg = strings.ReplaceAll(msg, input, " ")
		if t := strings.TrimSpace(input); t != "" {
			msg = strings.ReplaceAll(msg, t, " ")
		}
	}
	w := maskWords.FindAllString(msg, 12)
	return strings.Join(w, " ")
}

func (st *c06State) report(v core.Violation) {
	k := v.Eco + v.Op + v.Rule
	st.violSeen[k]++
	if st.violSeen[k] <= 5 {
		st.viol = append(st.viol, v)
	}
	st.counters["violations:"+v.Rule]++
}

func (st *c06State) tmpl(entry, t string) {
	if len(st.templates) < 200000 {
		st.templates[entry+"|"+t] = struct{}{}
	}
}

// callAll drives every library entry point with input s.
func (st *c06State) callAll(s string, full bool) {
	st.cur.Store(s)
	for _, ce := range st.ecos {
		e := ce.e
		st.counter.Add(1)
		v, err, pn := e.SafeNewVersion(s)
		st.evals++
		switch {
		case pn != nil:
			st.report(core.Violation{Eco: e.Name, Op: "NewVersion", Args: []string{s}, Rule: "panic", Got: pn.Value, Detail: pn.Stack})
		case v == nil && err == nil:
			st.report(core.Violation{Eco: e.Name, Op: "NewVersion", Args: []string{s}, Rule: "nil-nil", Got: "(nil,nil)", Want: "value xor error"})
		case v != nil && err != nil:
			st.report(core.Violation{Eco: e.Name, Op: "NewVersion", Args: []string{s}, Rule: "value-and-error", Got: "(value," + err.Error() + ")", Want: "value xor error"})
		case err != nil:
			st.tmpl(e.Name+".NewVersion", maskMsg(err.Error(), s))
		default:
			st.tmpl(e.Name+".NewVersion", "accepted")
			st.counters["accepted:NewVersion"]++
			if _, pn := eco.SafeVString(v); pn != nil {
				st.report(core.Violation{Eco: e.Name, Op: "VString", Args: []string{s}, Rule: "panic", Got: pn.Value, Detail: pn.Stack})
			}
			if c, pn := eco.SafeCompare(v, v); pn != nil {
				st.report(core.Violation{Eco: e.Name, Op: "Compare", Args: []string{s, s}, Rule: "panic", Got: pn.Value, Detail: pn.Stack})
			} else if c != 0 {
				st.counters["self-compare-nonzero"]++
			}
			st.evals++
			if full {
				// hostile values against each other: both operands unusual at the same position
				for _, p := range ce.recent {
					st.evals += 2
					st.partner.Store(e.Name + ":" + p.String())
					st.counter.Add(1)
					if _, pn := eco.SafeCompare(v, p); pn != nil {
						st.report(core.Violation{Eco: e.Name, Op: "Compare", Args: []string{s, p.String()}, Rule: "panic", Got: pn.Value, Detail: pn.Stack})
					}
					if _, pn := eco.SafeCompare(p, v); pn != nil {
						st.report(core.Violation{Eco: e.Name, Op: "Compare", Args: []string{p.String(), s}, Rule: "panic", Got: pn.Value, Detail: pn.Stack})
					}
				}
				st.partner.Store("")
				if len(ce.recent) < 6 {
					ce.recent = append(ce.recent, v)
				} else {
					ce.recent[int(st.evals)%6] = v
				}
			}
			for i, p := range ce.partners {
				if !full && i >= 4 {
					break
				}
				st.evals += 2
				if _, pn := eco.SafeCompare(v, p); pn != nil {
					st.report(core.Violation{Eco: e.Name, Op: "Compare", Args: []string{s, p.String()}, Rule: "panic", Got: pn.Value, Detail: pn.Stack})
				}
				if _, pn := eco.SafeCompare(p, v); pn != nil {
					st.report(core.Violation{Eco: e.Name, Op: "Compare", Args: []string{p.String(), s}, Rule: "panic", Got: pn.Value, Detail: pn.Stack})
				}
			}
		}
		st.counter.Add(1)
		r, err, pn := e.SafeNewRange(s)
		st.evals++
		switch {
		case pn != nil:
			st.report(core.Violation{Eco: e.Name, Op: "NewVersionRange", Args: []string{s}, Rule: "panic", Got: pn.Value, Detail: pn.Stack})
		case r == nil && err == nil:
			st.report(core.Violation{Eco: e.Name, Op: "NewVersionRange", Args: []string{s}, Rule: "nil-nil", Got: "(nil,nil)", Want: "value xor error"})
		case r != nil && err != nil:
			st.report(core.Violation{Eco: e.Name, Op: "NewVersionRange", Args: []string{s}, Rule: "value-and-error", Got: "(value," + err.Error() + ")", Want: "value xor error"})
		case err != nil:
			st.tmpl(e.Name+".NewVersionRange", maskMsg(err.Error(), s))
		default:
			st.tmpl(e.Name+".NewVersionRange", "accepted")
			st.counters["accepted:NewVersionRange"]++
			if _, pn := eco.SafeRString(r); pn != nil {
				st.report(core.Violation{Eco: e.Name, Op: "RString", Args: []string{s}, Rule: "panic", Got: pn.Value, Detail: pn.Stack})
			}
			if full {
				for _, p := range ce.recent {
					st.evals++
					st.partner.Store(e.Name + ":" + p.String())
					st.counter.Add(1)
					if _, pn := eco.SafeContains(r, p); pn != nil {
						st.report(core.Violation{Eco: e.Name, Op: "Contains", Args: []string{s, p.String()}, Rule: "panic", Got: pn.Value, Detail: pn.Stack})
					}
				}
				st.partner.Store("")
			}
			for i, p := range ce.partners {
				if !full && i >= 4 {
					break
				}
				st.evals++
				if _, pn := eco.SafeContains(r, p); pn != nil {
					st.report(core.Violation{Eco: e.Name, Op: "Contains", Args: []string{s, p.String()}, Rule: "panic", Got: pn.Value, Detail: pn.Stack})
				}
			}
		}
	}
	// VERS
	vc := func(rs, vs, entry string) {
		st.counter.Add(1)
		ok, err, pn := eco.SafeVersContains(rs, vs)
		st.evals++
		switch {
		case pn != nil:
			st.report(core.Violation{Eco: "vers", Op: "VersContains", Args: []string{rs, vs}, Rule: "panic", Got: pn.Value, Detail: pn.Stack})
		case ok && err != nil:
			st.report(core.Violation{Eco: "vers", Op: "VersContains", Args: []string{rs, vs}, Rule: "true-with-error", Got: "(true," + err.Error() + ")", Want: "false whenever an error is returned"})
		case err != nil:
			st.tmpl(entry, maskMsg(err.Error(), s))
		default:
			st.tmpl(entry, "accepted")
		}
	}
	for _, sc := range Schemes {
		vc("vers:"+sc+"/"+s, "1.0.0", "vers."+sc+".constraints")
		vc("vers:"+sc+"/>=0.0.1|"+s, "1.0.0", "vers."+sc+".constraints2")
		vc("vers:"+sc+"/>=0.0.1|<9", s, "vers."+sc+".probe")
	}
	vc(s, "1.0.0", "vers.whole")
	vc("vers:"+s, "1.0.0", "vers.afterprefix")
	vc("vers:"+s+"/>=1.0.0", "1.0.0", "vers.scheme")
	st.cur.Store("")
}

// cpuNow returns process CPU time (user+sys).
func cpuNow() time.Duration {
	var ru syscall.Rusage
	syscall.Getrusage(syscall.RUSAGE_SELF, &ru)
	return time.Duration(ru.Utime.Nano() + ru.Stime.Nano())
}

func budgetFor(n int) time.Duration {
	return 5*time.Second + time.Duration(20*int64(n)*int64(n))*time.Nanosecond
}

type c06Result struct {
	Evals      int64            `json:"evals"`
	Counters   map[string]int64 `json:"counters"`
	Templates  []string         `json:"templates"`
	Violations []core.Violation `json:"violations"`
	Ladder     []map[string]any `json:"ladder,omitempty"`
	Done       bool             `json:"done"`
}

// C06Child is the child-process entry: verifmon C06 --child <mode> <shard> <of> <tier> <seed> <out>.
func C06Child(args []string) int {
	mode := args[0]
	shard, _ := strconv.Atoi(args[1])
	of, _ := strconv.Atoi(args[2])
	tier := args[3]
	seed, _ := strconv.ParseUint(args[4], 10, 64)
	out := args[5]
	st := newC06State()
	res := &c06Result{}
	flush := func(done bool) {
		res.Evals, res.Counters, res.Violations, res.Done = st.evals, st.counters, st.viol, done
		res.Templates = res.Templates[:0]
		for t := range st.templates {
			res.Templates = append(res.Templates, t)
		}
		b, _ := json.Marshal(res)
		os.WriteFile(out+".tmp", b, 0o644)
		os.Rename(out+".tmp", out)
	}
	// CPU budget monitor: the case counter must advance before the budget for the current input is used up.
	var lastCount int64 = -1
	var cpuAtChange time.Duration
	go func() {
		for {
			time.Sleep(50 * time.Millisecond)
			n := st.counter.Load()
			now := cpuNow()
			if n != lastCount {
				lastCount, cpuAtChange = n, now
				continue
			}
			cur, _ := st.cur.Load().(string)
			partner, _ := st.partner.Load().(string)
			if now-cpuAtChange > budgetFor(len(cur)+len(partner)) {
				st.viol = append(st.viol, core.Violation{Eco: "any", Op: "call", Args: []string{trunc(cur, 200), trunc(partner, 200), "len=" + itoa(len(cur))}, Rule: "cpu-budget",
					Got: fmt.Sprintf("call #%d used > %v of CPU", n, now-cpuAtChange), Want: "terminates within 5s+20ns*n^2"})
				flush(false)
				os.Exit(7)
			}
		}
	}()
	switch mode {
	case "exhaust":
		k := 4
		if tier == "thorough" {
			k = 5
		}
		if v := os.Getenv("VERIF_C06_K"); v != "" {
			k, _ = strconv.Atoi(v)
		}
		exhaustShard(st, k, shard, of)
		if shard == 0 {
			st.counters["exhaust_k"] = int64(k)
		}
	case "hostile":
		r := core.Rand(seed, "C06", "hostile", itoa(shard))
		if shard == 0 {
			// Unicode sweep: every code point of Latin-1 Supplement .. Latin Extended-B, Greek, Cyrillic, Hebrew and a few
			// Arabic / CJK / 4-byte ones is placed at the same position of two sibling strings (and of a third with one more
			// segment); the siblings meet in the ring of recent values, so BOTH operands carry the same non-ASCII letter where
			// they start to differ. Byte-wise classifiers that disagree on one continuation byte spin or index there.
			var cps []rune
			for c := rune(0x00A0); c <= 0x024F; c++ {
				cps = append(cps, c)
			}
			for _, rg := range [][2]rune{{0x0386, 0x03CE}, {0x0400, 0x045F}, {0x05D0, 0x05EA}, {0x0621, 0x064A}, {0x3041, 0x3096}} {
				for c := rg[0]; c <= rg[1]; c++ {
					cps = append(cps, c)
				}
			}
			cps = append(cps, 0x8A9E, 0x672C, 0x65E5, 0x4E2D, 0x1F600, 0x10400, 0x2028, 0x200B, 0xFEFF, 0xFFFD, 0x0301)
			for _, cp := range cps {
				ch := string(cp)
				for _, b := range []string{"1.0-b", "2.1.", "3.0~men", "1"} {
					st.callAll(b+ch+"ta1", true)
					st.callAll(b+ch+"ta2", true)
					st.callAll(b+ch+".1", true)
					st.callAll(b+ch, true)
					st.callAll("<"+b+ch+".1", true)
				}
				st.counters["unicode_sweep_code_points"]++
			}
		}
		n := 6000
		if tier == "thorough" {
			n = 250000
		}
		names := eco.Names()
		for i := 0; i < n; i++ {
			en := names[r.IntN(len(names))]
			var s string
			if l := gen.AnyNewLit(r); l != "" && r.IntN(4) == 0 {
				// a literal that a change introduced into the sources, glued after / before / around / between
				// well-formed versions and ranges; used as is
				v1, v2 := gen.One(en, r), gen.One(en, r)
				s = []string{v1 + l, l + v1, v1 + l + v2, l + v1 + gen.AnyNewLit(r), gen.RangeOne(en, r) + l, v1 + " " + l + " " + v2, l}[r.IntN(7)]
				st.callAll(s, true)
				st.counters["hostile_inputs"]++
				st.counters["hostile_new_literal_glue"]++
				continue
			}
			switch r.IntN(5) {
			case 0:
				s = gen.One(en, r)
			case 1:
				s = gen.RangeOne(en, r)
			case 4:
				// the punctuation literals of the ecosystem's own sources before / after / around a well-formed version
				// (operators and wildcard suffixes no table lists yet); used as is, and mutated half of the time
				s = gen.SymRange(en, r, func() string { return gen.One(en, r) })
				st.callAll(s, true)
				st.counters["hostile_inputs"]++
				st.counters["hostile_source_literal_operator_ranges"]++
				if r.IntN(2) == 0 {
					continue
				}
			case 2:
				// token-level damage; used as is half of the time (no byte-level mutation on top)
				s = gen.HostileRange(en, r)
				st.callAll(s, true)
				st.counters["hostile_inputs"]++
				st.counters["hostile_token_level_ranges"]++
				if r.IntN(2) == 0 {
					continue
				}
			default:
				s = "vers:" + Schemes[r.IntN(len(Schemes))] + "/" + gen.Pick(r, ">=", "<", "=", "!=", "<=", ">") + gen.One(en, r) + gen.Pick(r, "", "|<"+gen.One(en, r), "|!="+gen.One(en, r))
			}
			base := s
			for m := 1 + r.IntN(3); m > 0; m-- {
				s = gen.Hostile(s, r)
			}
			st.callAll(s, true)
			st.counters["hostile_inputs"]++
			if r.IntN(2) == 0 { // a sibling: another mutation of the same base (or the same foreign byte elsewhere)
				s2 := gen.Hostile(base, r)
				if r.IntN(2) == 0 {
					s2 = gen.Hostile(s, r)
				}
				st.callAll(s2, true)
				st.counters["hostile_inputs"]++
			}
		}
	case "ladder":
		sizes := []int{1000, 10000, 50000}
		if tier == "thorough" {
			sizes = []int{1000, 10000, 100000, 200000}
		}
		ladders := gen.Ladder(10)
		for li := range ladders {
			if li%of != shard {
				continue
			}
			var prevCPU time.Duration
			prevN := 0
			for _, n := range sizes {
				s := gen.Ladder(n)[li]
				t0 := cpuNow()
				st.callAll(s, false)
				d := cpuNow() - t0
				st.counters["ladder_inputs"]++
				res.Ladder = append(res.Ladder, map[string]any{"ladder": trunc(ladders[li], 12), "n": n, "cpu_ms": d.Milliseconds()})
				if prevN > 0 && prevCPU >= 200*time.Millisecond && d > time.Second {
					ratio := float64(d) / float64(prevCPU)
					q := float64(n) / float64(prevN)
					if ratio > 4*q*q {
						st.report(core.Violation{Eco: "any", Op: "ladder", Args: []string{trunc(ladders[li], 20), itoa(prevN), itoa(n)}, Rule: "superquadratic-growth",
							Got: fmt.Sprintf("cpu %v -> %v (x%.0f) for n x%.0f", prevCPU, d, ratio, q), Want: "at most quadratic"})
					}
				}
				prevCPU, prevN = d, n
				flush(false)
			}
		}
	case "trace":
		// re-run one exhaustive chunk logging each input before it is used (crash attribution)
		k, _ := strconv.Atoi(os.Getenv("VERIF_C06_K"))
		lf, _ := os.OpenFile(out+".trace", os.O_CREATE|os.O_WRONLY|os.O_TRUNC, 0o644)
		exhaustShardTrace(st, k, shard, of, lf)
	}
	flush(true)
	return 0
}

func trunc(s string, n int) string {
	if len(s) > n {
		return s[:n] + "..."
	}
	return s
}

func exhaustEach(k, shard, of int, fn func(s string)) {
	a := c06Alphabet
	n := len(a)
	idx := 0
	buf := make([]byte, 0, k)
	var rec func(depth int)
	rec = func(depth int) {
		if depth > 0 {
			if idx%of == shard {
				fn(string(buf))
			}
			idx++
		} else if shard == 0 {
			fn("")
		}
		if depth == k {
			return
		}
		for i := 0; i < n; i++ {
			buf = append(buf, a[i])
			rec(depth + 1)
			buf = buf[:len(buf)-1]
		}
	}
	rec(0)
}

func exhaustShard(st *c06State, k, shard, of int) {
	exhaustEach(k, shard, of, func(s string) {
		st.callAll(s, false)
		st.counters["exhaust_strings"]++
	})
}

func exhaustShardTrace(st *c06State, k, shard, of int, lf *os.File) {
	exhaustEach(k, shard, of, func(s string) {
		fmt.Fprintf(lf, "BEGIN %q\n", s)
		st.callAll(s, false)
	})
}

// evalC06 re-evaluates one input (op is the entry point of the original report; all entry points are driven).
func evalC06(c *core.Ctx, e *eco.Eco, op string, args []string) []core.Violation {
	if len(args) == 0 {
		return nil
	}
	if op == "fuzz" && len(args) == 2 && args[1] != "" {
		// put the corpus entry back and run the target on it
		goBin := os.Getenv("VERIF_GO")
		if goBin == "" {
			goBin = "go"
		}
		dir := filepath.Join(c.Dir, "harness", "fuzz", "testdata", "fuzz", args[0])
		os.MkdirAll(dir, 0o755)
		defer os.RemoveAll(filepath.Join(c.Dir, "harness", "fuzz", "testdata"))
		os.WriteFile(filepath.Join(dir, "replay"), []byte(args[1]), 0o644)
		cmd := exec.Command(goBin, "test", "-run", "^"+args[0]+"$", "./fuzz")
		cmd.Dir = filepath.Join(c.Dir, "harness")
		if out, err := cmd.CombinedOutput(); err != nil {
			return []core.Violation{{Eco: "fuzz", Op: "fuzz", Args: args, Rule: "fuzz-crasher", Got: trunc(string(out), 1500)}}
		}
		return nil
	}
	if op == "CLI" {
		bin := filepath.Join(c.Dir, ".build", "univers.replay")
		if err := buildCLI(bin); err != nil {
			return nil
		}
		defer os.Remove(bin)
		return cliStructural(bin, args)
	}
	st := newC06State()
	if op == "VersContains" && len(args) == 2 {
		ok, err, pn := eco.SafeVersContains(args[0], args[1])
		if pn != nil {
			return []core.Violation{{Eco: "vers", Op: op, Args: args, Rule: "panic", Got: pn.Value}}
		}
		if ok && err != nil {
			return []core.Violation{{Eco: "vers", Op: op, Args: args, Rule: "true-with-error"}}
		}
		return nil
	}
	done := make(chan struct{})
	go func() {
		st.callAll(args[0], true)
		if len(args) > 1 && strings.Contains(args[1], ":") {
			// "<eco>:<partner>": the two values are compared / range-tested against each other
			k := strings.IndexByte(args[1], ':')
			if pe := eco.ByName(args[1][:k]); pe != nil {
				p, e1, p1 := pe.SafeNewVersion(args[1][k+1:])
				v, e2, p2 := pe.SafeNewVersion(args[0])
				if p1 == nil && p2 == nil && e1 == nil && e2 == nil && p != nil && v != nil {
					eco.SafeCompare(v, p)
					eco.SafeCompare(p, v)
				}
				if rg, e3, p3 := pe.SafeNewRange(args[0]); p3 == nil && e3 == nil && rg != nil && p != nil {
					eco.SafeContains(rg, p)
				}
			}
		}
		close(done)
	}()
	select {
	case <-done:
	case <-time.After(120 * time.Second):
		return []core.Violation{{Eco: "any", Op: op, Args: args, Rule: "cpu-budget", Got: "no result within 120 s wall in replay"}}
	}
	return st.viol
}

func buildCLI(out string) error {
	goBin := os.Getenv("VERIF_GO")
	if goBin == "" {
		goBin = "go"
	}
	cmd := exec.Command(goBin, "build", "-o", out, "./cmd")
	cmd.Dir = repoDir()
	cmd.Env = append(os.Environ(), "GOFLAGS=-mod=mod") // never the harness's -modfile
	b, err := cmd.CombinedOutput()
	if err != nil {
		return fmt.Errorf("%v: %s", err, b)
	}
	return nil
}

func repoDir() string {
	if d := os.Getenv("VERIF_REPO"); d != "" {
		return d
	}
	return "/repo"
}

var resultShaped = regexp.MustCompile(`^(-1|0|1|true|false|"(?:[^"\\]|\\.)*"(?: "(?:[^"\\]|\\.)*")*)$`)

// runCLI executes the binary; returns stdout, exit status, signal.
func runCLI(bin string, argv []string) (string, int, string) {
	cmd := exec.Command(bin, argv...)
	var ob, eb strings.Builder
	cmd.Stdout, cmd.Stderr = &ob, &eb
	err := cmd.Start()
	if err != nil {
		return "", -2, err.Error()
	}
	done := make(chan error, 1)
	go func() { done <- cmd.Wait() }()
	select {
	case err = <-done:
	case <-time.After(60 * time.Second):
		cmd.Process.Kill()
		return ob.String(), -3, "timeout"
	}
	if err != nil {
		if ee, ok := err.(*exec.ExitError); ok {
			ws := ee.Sys().(syscall.WaitStatus)
			if ws.Signaled() {
				return ob.String(), -1, ws.Signal().String()
			}
			return ob.String(), ws.ExitStatus(), eb.String()
		}
		return ob.String(), -2, err.Error()
	}
	return ob.String(), 0, eb.String()
}

// cliStructural checks the process-boundary part of C06 for one argv.
func cliStructural(bin string, argv []string) []core.Violation {
	out, code, sig := runCLI(bin, argv)
	mk := func(rule, got, want string) []core.Violation {
		return []core.Violation{{Eco: "cli", Op: "CLI", Args: argv, Rule: rule, Got: got, Want: want}}
	}
	switch {
	case code == -1:
		return mk("killed-by-signal", sig, "exit 0 or 1")
	case code == -3:
		return mk("hang", "no exit within 60 s", "terminates")
	case code == -2:
		return nil // could not start (e.g. NUL in argv): not an observation
	case code != 0 && code != 1:
		return mk("exit-status", itoa(code)+" stderr="+trunc(sig, 300), "0 or 1")
	case code == 1:
		line := strings.TrimSuffix(out, "\n")
		if resultShaped.MatchString(line) {
			return mk("result-on-failure", trunc(out, 200), "a diagnostic, not a result")
		}
		if strings.TrimSpace(out) == "" {
			return mk("no-diagnostic", "empty stdout", "a diagnostic")
		}
	case code == 0:
		if strings.Count(out, "\n") != 1 || !strings.HasSuffix(out, "\n") {
			return mk("not-one-line", trunc(out, 200), "exactly one line on success")
		}
	}
	return nil
}

func runC06(c *core.Ctx, ck *Check) {
	evalWitnesses(c, ck)
	self, _ := os.Executable()
	dir := filepath.Join(c.Dir, ".build", "c06."+itoa(os.Getpid()))
	os.MkdirAll(dir, 0o755)
	defer os.RemoveAll(dir)
	type childJob struct {
		mode  string
		shard int
		of    int
	}
	var jobs []childJob
	parts := os.Getenv("VERIF_C06_PARTS") // debugging aid: comma list of exhaust,hostile,ladder,cli,fuzz
	on := func(p string) bool { return parts == "" || strings.Contains(","+parts+",", ","+p+",") }
	shards := c.Scale(16, 64)
	for s := 0; s < shards && on("exhaust"); s++ {
		jobs = append(jobs, childJob{"exhaust", s, shards})
	}
	for s := 0; s < c.Scale(4, 16) && on("hostile"); s++ {
		jobs = append(jobs, childJob{"hostile", s, c.Scale(4, 16)})
	}
	for s := 0; s < 12 && on("ladder"); s++ {
		jobs = append(jobs, childJob{"ladder", s, 12})
	}
	var mu sync.Mutex
	templates := map[string]struct{}{}
	var ladder []map[string]any
	wall := c.Scale(900, 5400)
	runChild := func(w *core.W, j childJob, trace bool) (res *c06Result, status int, stderr string) {
		out := filepath.Join(dir, fmt.Sprintf("%s-%d.json", j.mode, j.shard))
		mode := j.mode
		if trace {
			mode = "trace"
		}
		cmd := exec.Command("timeout", "-s", "QUIT", itoa(wall), self, "C06", "--child", mode, itoa(j.shard), itoa(j.of), c.Tier, strconv.FormatUint(c.Seed, 10), out)
		ef, _ := os.Create(out + ".stderr")
		cmd.Stderr = ef
		cmd.Env = os.Environ()
		err := cmd.Run()
		ef.Close()
		status = 0
		if err != nil {
			if ee, ok := err.(*exec.ExitError); ok {
				status = ee.ExitCode()
			} else {
				status = -1
			}
		}
		if b, e2 := os.ReadFile(out); e2 == nil {
			res = &c06Result{}
			json.Unmarshal(b, res)
		}
		eb, _ := os.ReadFile(out + ".stderr")
		return res, status, string(eb)
	}
	c.Parallel(len(jobs), func(w *core.W, i int) {
		j := jobs[i]
		res, status, stderr := runChild(w, j, false)
		if res != nil {
			w.Count("evaluations", res.Evals)
			for k, v := range res.Counters {
				w.Count(k, v)
			}
			for _, v := range res.Violations {
				w.Report(v)
			}
			mu.Lock()
			for _, t := range res.Templates {
				templates[t] = struct{}{}
			}
			ladder = append(ladder, res.Ladder...)
			mu.Unlock()
		}
		switch {
		case status == 0 && res != nil && res.Done:
		case status == 7: // CPU budget violation, already in res.Violations
		case status == 124 || status == 131 || status == 137:
			c.Inconclusive(fmt.Sprintf("child %s/%d hit the wall-clock watchdog without exceeding a CPU budget", j.mode, j.shard))
		default:
			// runtime fatal error or crash: attribute by re-running the shard in trace mode (exhaust only)
			witness := []string{fmt.Sprintf("%s shard %d/%d", j.mode, j.shard, j.of)}
			if j.mode == "exhaust" {
				os.Setenv("VERIF_C06_K", itoa(c.Scale(4, 5)))
				runChild(w, j, true)
				if tb, err := os.ReadFile(filepath.Join(dir, fmt.Sprintf("%s-%d.json.trace", j.mode, j.shard))); err == nil {
					lines := strings.Split(strings.TrimSpace(string(tb)), "\n")
					last := lines[len(lines)-1]
					if s, err := strconv.Unquote(strings.TrimPrefix(last, "BEGIN ")); err == nil {
						witness = []string{s}
					}
				}
			}
			w.Report(core.Violation{Eco: "any", Op: "call", Args: witness, Rule: "process-died", Got: fmt.Sprintf("status %d: %s", status, trunc(stderr, 1500)), Want: "no crash"})
		}
	})
	c.Note("ladder_cpu", ladder)
	// distinct (entry point, template) pairs = the NT count
	w := c.NewW()
	perEntry := map[string]int{}
	for t := range templates {
		w.NT(core.Hash64(t))
		perEntry[strings.SplitN(t, "|", 2)[0]]++
	}
	w.Sample(map[string]any{"alphabet": c06Alphabet, "example_inputs": []string{"", "[]", "(,)", ">=", "~>", "1.x", "vers:npm/>=|"}, "entry_points": len(perEntry)})
	w.Merge()
	c.Note("distinct_error_templates_per_entry_point", perEntry)
	c.Note("exhaustive_subspace", fmt.Sprintf("all strings of length <= %d over %q through every entry point", c.Scale(4, 5), c06Alphabet))
	if on("volume") {
		all := eco.All()
		c.Parallel(len(all), func(w *core.W, i int) {
			for _, v := range c06Volume(c, w, all[i]) {
				w.Report(v)
			}
		})
	}
	if on("cli") {
		runC06CLI(c)
	}
	if on("fuzz") {
		runC06Fuzz(c)
	}
}

var fuzzExecs = regexp.MustCompile(`execs: ([0-9]+)`)
var fuzzFailFile = regexp.MustCompile(`testdata/fuzz/(Fuzz[A-Za-z]+)/([0-9a-f]+)`)

// runC06Fuzz runs the native Go fuzz targets (harness/fuzz) for a fixed number of executions each.
func runC06Fuzz(c *core.Ctx) {
	goBin := os.Getenv("VERIF_GO")
	if goBin == "" {
		goBin = "go"
	}
	w := c.NewW()
	defer w.Merge()
	n := c.Scale(150000, 20000000)
	fdir := filepath.Join(c.Dir, "harness", "fuzz")
	for _, target := range []string{"FuzzVersion", "FuzzRange", "FuzzVers"} {
		cmd := exec.Command("timeout", "-s", "QUIT", itoa(c.Scale(600, 5400)), goBin, "test", "-run", "^$", "-fuzz", "^"+target+"$", "-fuzztime", itoa(n)+"x", "./fuzz")
		cmd.Dir = filepath.Join(c.Dir, "harness")
		out, err := cmd.CombinedOutput()
		text := string(out)
		execs := int64(0)
		for _, m := range fuzzExecs.FindAllStringSubmatch(text, -1) {
			if v, e2 := strconv.ParseInt(m[1], 10, 64); e2 == nil && v > execs {
				execs = v
			}
		}
		w.Count("evaluations", execs)
		w.Count("fuzz_execs:"+target, execs)
		if err == nil {
			continue
		}
		if m := fuzzFailFile.FindStringSubmatch(text); m != nil {
			cf := filepath.Join(fdir, "testdata", "fuzz", m[1], m[2])
			content, _ := os.ReadFile(cf)
			os.Remove(cf)
			msg := text
			if k := strings.Index(text, "--- FAIL"); k >= 0 {
				msg = text[k:]
			}
			w.Report(core.Violation{Eco: "fuzz", Op: "fuzz", Args: []string{target, string(content)}, Rule: "fuzz-crasher", Got: trunc(msg, 2500), Want: "no failing input"})
			continue
		}
		if strings.Contains(text, "FAIL") {
			w.Report(core.Violation{Eco: "fuzz", Op: "fuzz", Args: []string{target, ""}, Rule: "fuzz-failure", Got: trunc(text, 2500)})
			continue
		}
		c.Inconclusive("fuzz target " + target + " did not run: " + trunc(text, 300))
	}
	os.RemoveAll(filepath.Join(fdir, "testdata"))
}

// runC06CLI drives the built binary with hostile argument vectors.
func runC06CLI(c *core.Ctx) {
	bin := filepath.Join(c.Dir, ".build", "univers.c06."+itoa(os.Getpid()))
	if err := buildCLI(bin); err != nil {
		c.Inconclusive("cannot build /repo/cmd: " + err.Error())
		return
	}
	defer os.Remove(bin)
	n := c.Scale(1500, 40000)
	names := append(eco.Names(), "vers", "nosuch", "", "-h", "--help")
	cmds := []string{"compare", "sort", "contains", "nosuch", "", "--", "-1"}
	// command words discovered in the CLI's own sources (string literals of <repo>/cmd): every lower-case word is tried
	// as the sub-command with every argument shape a sub-command can have (no / one / several versions, a range followed
	// by one or several versions that are inside it, outside it, or a mix), all arguments well-formed. A sub-command
	// added tomorrow is exercised the day it is added.
	var words []string
	for _, wd := range gen.PkgWords("cmd") {
		if len(wd) >= 2 && len(wd) <= 14 && strings.ToLower(wd) == wd && eco.ByName(wd) == nil {
			words = append(words, wd)
		}
	}
	sortStrings(words)
	cmds = append(cmds, words...)
	wecos := eco.Names()
	type wjob struct{ word, eco string }
	var wjobs []wjob
	for _, wd := range words {
		for k := 0; k < c.Scale(5, len(wecos)); k++ {
			wjobs = append(wjobs, wjob{wd, wecos[(k*7+len(wd)+int(wd[0]))%len(wecos)]})
		}
	}
	c.Note("cli_command_words_from_source", len(words))
	c.Parallel(len(wjobs), func(w *core.W, i int) {
		j := wjobs[i]
		e := eco.ByName(j.eco)
		r := c.Rand("c06cliword", j.word, j.eco)
		okVer := func() string {
			for t := 0; t < 30; t++ {
				s := gen.One(j.eco, r)
				if v, err, pn := e.SafeNewVersion(s); pn == nil && err == nil && v != nil && !strings.HasPrefix(s, "-") && !strings.Contains(s, "\x00") {
					return s
				}
			}
			return "1.0.0"
		}
		okRange := func() string {
			for t := 0; t < 30; t++ {
				s := gen.RangeOne(j.eco, r)
				if g, err, pn := e.SafeNewRange(s); pn == nil && err == nil && g != nil && !strings.HasPrefix(s, "-") && !strings.Contains(s, "\x00") {
					return s
				}
			}
			return ">=1.0.0"
		}
		for rep := 0; rep < 3; rep++ {
			vs := []string{okVer(), okVer(), okVer(), okVer()}
			rg := okRange()
			// versions inside and outside the range
			var in, out []string
			if g, err, pn := e.SafeNewRange(rg); pn == nil && err == nil && g != nil {
				for t := 0; t < 40 && (len(in) < 2 || len(out) < 3); t++ {
					s := okVer()
					v, _, _ := e.SafeNewVersion(s)
					if v == nil {
						continue
					}
					if got, pn := eco.SafeContains(g, v); pn == nil && got {
						in = append(in, s)
					} else if pn == nil {
						out = append(out, s)
					}
				}
			}
			shapes := [][]string{{}, {vs[0]}, {vs[0], vs[1]}, vs[:3], vs, {rg}, {rg, vs[0]}, append([]string{rg}, vs...),
				append([]string{rg}, out...), append([]string{rg}, in...), append(append([]string{rg}, out...), in...), {vs[0], rg}}
			for _, sh := range shapes {
				argv := append([]string{j.eco, j.word}, sh...)
				w.Count("evaluations", 1)
				w.Count("cli_runs", 1)
				w.Count("cli_word_runs", 1)
				w.NT(core.Hash64("cliword", j.word, j.eco, itoa(len(sh))))
				for _, v := range cliStructural(bin, argv) {
					w.Report(v)
				}
			}
		}
	})
	const chunk = 50
	c.Parallel(n/chunk, func(w *core.W, i int) {
		r := c.Rand("c06cli", itoa(i))
		for k := 0; k < chunk; k++ {
			var argv []string
			en := names[r.IntN(len(names))]
			argc := r.IntN(6)
			if argc > 0 {
				argv = append(argv, en)
			}
			if argc > 1 {
				argv = append(argv, cmds[r.IntN(len(cmds))])
			}
			for len(argv) < argc {
				var s string
				real := en
				if eco.ByName(en) == nil {
					real = "npm"
				}
				switch r.IntN(5) {
				case 0:
					s = gen.One(real, r)
				case 1:
					s = gen.RangeOne(real, r)
				case 2:
					s = gen.Hostile(gen.One(real, r), r)
				case 3:
					s = gen.Pick(r, "", " ", "-", "--", "-1", "'", "\"", "a b", "\t", "[]", "(,)", ">=", "*", "vers:npm/>=1.0.0", "vers:", "\xff", "-r", "--version", "\\")
				default:
					s = gen.Hostile(gen.RangeOne(real, r), r)
				}
				s = strings.ReplaceAll(s, "\x00", "")
				argv = append(argv, s)
			}
			w.Count("evaluations", 1)
			w.Count("cli_runs", 1)
			for _, v := range cliStructural(bin, argv) {
				w.Report(v)
			}
		}
	})
}
