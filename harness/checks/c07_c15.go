package checks

import (
	"fmt"
	"os"
	"path/filepath"
	"slices"
	"sort"
	"strconv"
	"strings"

	"verif/harness/core"
	"verif/harness/eco"
	"verif/harness/gen"
)

func init() {
	ck := &Check{
		ID: "C07",
		Rule: "per ecosystem: lists of length 1..64 drawn from cluster pools with duplicates and Compare-equal respellings; all permutations for length <= 6 (in process) and sampled " +
			"permutations beyond, sorted with slices.SortFunc + Compare in process and by the built 'univers <eco> sort' binary (output parsed back with strconv unquoting); " +
			"oracles: output multiset == input multiset, every adjacent pair non-decreasing, identical sequence of equivalence classes for every input order; invalid-element " +
			"injection at every position must give exit 1, no list and a diagnostic naming the element. " +
			"Non-trivial = distinct (ecosystem, multiset, permutation) with >= 2 classes and >= 1 duplicate or equal respelling",
		Assumptions: []string{"the implementation's Compare is the order (law monitor)", "inputs carry no surrounding whitespace here (C18's subject)"},
		MinEvals:    20000,
	}
	ck.Eval = evalC07
	ck.Run = func(c *core.Ctx) { runC07(c, ck) }
	register(ck)

	ck15 := &Check{
		ID: "C15",
		Rule: "all 20 ecosystem names + 'vers' + unknown names x {compare, sort, contains, unknown} x argument vectors of 0-5 arguments (valid, invalid, with spaces, quotes, leading dashes, empty); " +
			"the built binary's (stdout, exit status) is compared with the library result computed in process through the adapter registered under the same Name constant; " +
			"discriminating inputs (on which at least two ecosystems disagree, found by running each candidate through all 20 adapters) make mis-wired names and swapped arguments observable. " +
			"Non-trivial = distinct (name, command, arity class, outcome class, discriminating?)",
		Assumptions: []string{"the harness's own formatter (%d, %t, %q joined by one space) states the documented output format"},
		MinEvals:    3000,
	}
	ck15.Eval = evalC15
	ck15.Run = func(c *core.Ctx) { runC15(c, ck15) }
	register(ck15)
}

// classSeq returns the sequence of equivalence classes (each a sorted multiset of strings) of an
// already sorted list.
func classSeq(e *eco.Eco, sorted []string) ([][]string, bool) {
	vs := make([]eco.Ver, len(sorted))
	for i, s := range sorted {
		v, err, pn := e.SafeNewVersion(s)
		if pn != nil || err != nil || v == nil {
			return nil, false
		}
		vs[i] = v
	}
	var out [][]string
	for i := range sorted {
		if i > 0 {
			c, pn := eco.SafeCompare(vs[i-1], vs[i])
			if pn != nil || c > 0 {
				return nil, false
			}
			if c == 0 {
				out[len(out)-1] = append(out[len(out)-1], sorted[i])
				continue
			}
		}
		out = append(out, []string{sorted[i]})
	}
	for _, cl := range out {
		sort.Strings(cl)
	}
	return out, true
}

func sameMultiset(a, b []string) bool {
	if len(a) != len(b) {
		return false
	}
	x, y := append([]string{}, a...), append([]string{}, b...)
	sort.Strings(x)
	sort.Strings(y)
	return slices.Equal(x, y)
}

func isPreorder(vs []eco.Ver) bool {
	n := len(vs)
	m := make([]int, n*n)
	for i := 0; i < n; i++ {
		for j := 0; j < n; j++ {
			c, pn := eco.SafeCompare(vs[i], vs[j])
			if pn != nil || c < -1 || c > 1 {
				return false
			}
			m[i*n+j] = c
		}
	}
	for i := 0; i < n; i++ {
		if m[i*n+i] != 0 {
			return false
		}
		for j := 0; j < n; j++ {
			if m[i*n+j] != -m[j*n+i] {
				return false
			}
			for k := 0; k < n; k++ {
				if m[i*n+j] <= 0 && m[j*n+k] <= 0 {
					if m[i*n+k] > 0 || ((m[i*n+j] < 0 || m[j*n+k] < 0) && m[i*n+k] >= 0) {
						return false
					}
				}
			}
		}
	}
	return true
}

// sortInProcess sorts the list as the README idiom does and returns the output strings.
func sortInProcess(e *eco.Eco, list []string) ([]string, []eco.Ver, bool) {
	vs := make([]eco.Ver, len(list))
	for i, s := range list {
		v, err, pn := e.SafeNewVersion(s)
		if pn != nil || err != nil || v == nil {
			return nil, nil, false
		}
		vs[i] = v
	}
	orig := append([]eco.Ver{}, vs...)
	func() {
		defer func() { recover() }()
		slices.SortFunc(vs, func(a, b eco.Ver) int { return a.Compare(b) })
	}()
	out := make([]string, len(vs))
	for i, v := range vs {
		s, pn := eco.SafeVString(v)
		if pn != nil {
			return nil, nil, false
		}
		out[i] = s
	}
	return out, orig, true
}

func parseQuoted(line string) ([]string, bool) {
	var out []string
	s := strings.TrimSuffix(line, "\n")
	for s != "" {
		q, err := strconv.QuotedPrefix(s)
		if err != nil {
			return nil, false
		}
		u, err := strconv.Unquote(q)
		if err != nil {
			return nil, false
		}
		out = append(out, u)
		s = s[len(q):]
		if s != "" {
			if s[0] != ' ' {
				return nil, false
			}
			s = s[1:]
		}
	}
	return out, true
}

// evalC07: op "sort" args = list (first permutation is the reference order); op "cli-sort" likewise through the binary;
// op "cli-sort-invalid" args = list containing one invalid element, last arg = its index.
func evalC07(c *core.Ctx, e *eco.Eco, op string, args []string) []core.Violation {
	if e == nil || len(args) == 0 {
		return nil
	}
	mk := func(rule, got, want string) []core.Violation {
		return []core.Violation{{Eco: e.Name, Op: op, Args: args, Rule: rule, Got: got, Want: want}}
	}
	switch op {
	case "sort", "cli-sort", "sort-alpm-mixed-pkgrel":
		ref, _, ok := sortInProcess(e, args)
		if !ok {
			return nil
		}
		out := ref
		if op == "cli-sort" {
			bin, cleanup, err := cliBinary(c)
			if err != nil {
				return nil
			}
			defer cleanup()
			so, code, _ := runCLI(bin, append([]string{e.Name, "sort"}, args...))
			if code != 0 {
				return mk("cli-exit", itoa(code)+" "+trunc(so, 200), "0")
			}
			var ok bool
			out, ok = parseQuoted(so)
			if !ok {
				return mk("cli-output-format", trunc(so, 200), "quoted strings separated by one space")
			}
		}
		if !sameMultiset(out, args) {
			return mk("multiset", fmt.Sprintf("%q", out), fmt.Sprintf("a permutation of %q", args))
		}
		inh := ""
		if inheritedNonTransitive(e, uniq(args)) {
			inh = ":inherited-from-reference"
		}
		cs, ok := classSeq(e, out)
		if !ok {
			return mk("not-sorted"+inh, fmt.Sprintf("%q", out), "non-decreasing")
		}
		// reference class sequence: from the canonical (string-sorted) input order
		canon := append([]string{}, args...)
		sort.Strings(canon)
		ro, _, _ := sortInProcess(e, canon)
		rcs, ok2 := classSeq(e, ro)
		if ok2 && fmt.Sprint(cs) != fmt.Sprint(rcs) {
			return mk("class-sequence-depends-on-input-order"+inh, fmt.Sprint(cs), fmt.Sprint(rcs))
		}
	case "cli-sort-invalid":
		if len(args) < 2 {
			return nil
		}
		idx, _ := strconv.Atoi(args[len(args)-1])
		list := args[:len(args)-1]
		if idx >= len(list) {
			return nil
		}
		if v, err, pn := e.SafeNewVersion(list[idx]); pn != nil || (err == nil && v != nil) {
			return nil
		}
		bin, cleanup, err := cliBinary(c)
		if err != nil {
			return nil
		}
		defer cleanup()
		so, code, _ := runCLI(bin, append([]string{e.Name, "sort"}, list...))
		if code != 1 {
			return mk("invalid-element-exit", itoa(code), "1")
		}
		if _, ok := parseQuoted(so); ok && strings.HasPrefix(so, "\"") {
			return mk("partial-result-on-error", trunc(so, 200), "a diagnostic only")
		}
		if t := strings.TrimSpace(list[idx]); t != "" && !strings.Contains(so, t) {
			return mk("diagnostic-does-not-name-element", trunc(so, 200), "mentions "+strconv.Quote(list[idx]))
		}
	}
	return nil
}

var cliBinPath string

// cliBinary returns the CLI binary built for this run (built once per process).
func cliBinary(c *core.Ctx) (string, func(), error) {
	if cliBinPath != "" {
		return cliBinPath, func() {}, nil
	}
	bin := filepath.Join(c.Dir, ".build", "univers."+c.Prop+"."+itoa(os.Getpid()))
	if err := buildCLI(bin); err != nil {
		return "", nil, err
	}
	return bin, func() { os.Remove(bin) }, nil
}

func runC07(c *core.Ctx, ck *Check) {
	bin := filepath.Join(c.Dir, ".build", "univers.C07."+itoa(os.Getpid()))
	if err := buildCLI(bin); err != nil {
		c.Inconclusive("cannot build /repo/cmd: " + err.Error())
		return
	}
	cliBinPath = bin
	defer func() { os.Remove(bin); cliBinPath = "" }()
	evalWitnesses(c, ck)
	rounds := c.Scale(8, 300)
	type job struct {
		e *eco.Eco
		k int
	}
	var jobs []job
	for _, e := range eco.All() {
		for k := 0; k < rounds; k++ {
			jobs = append(jobs, job{e, k})
		}
	}
	c.Parallel(len(jobs), func(w *core.W, i int) {
		j := jobs[i]
		e := j.e
		r := c.Rand("c07", e.Name, itoa(j.k))
		p := BuildPool(e, r, 120, w)
		full := p
		if e.Name == "alpm" {
			// vercmp defines a missing pkgrel as equal to any pkgrel, so lists that mix both families are
			// inherently order-dependent (C01's scoped exclusion); they are evaluated under their own op
			fam := &Pool{Eco: e}
			for x, s := range p.Strs {
				if alpmHasPkgrel(s) == (j.k%2 == 0) {
					fam.Strs, fam.Vers = append(fam.Strs, s), append(fam.Vers, p.Vers[x])
				}
			}
			p = fam
		}
		if len(p.Strs) < 8 {
			return
		}
		reported := 0
		rep := func(vs []core.Violation) {
			for _, v := range vs {
				if reported < 4 {
					reported++
					w.Report(v)
				}
			}
		}
		sortedIdx := p.SortedIdx()
		for n := 0; n < 40; n++ {
			ln := 1 + r.IntN(6)
			if n%4 == 3 {
				ln = 7 + r.IntN(58)
			}
			if n == 2 || n == 9 { // beyond the quantified 1..64: chunked / parallel / buffered code paths
				ln = []int{65, 66, 67, 100, 101, 127, 129, 200, 255, 257}[r.IntN(10)]
			}
			list := make([]string, 0, ln)
			// every other list is drawn from one neighbourhood of the pool's sorted order: cluster mates (same numbers,
			// another marker / revision / spelling) are where ties and near-ties sit
			near, at := n%2 == 1, r.IntN(len(sortedIdx))
			for len(list) < ln {
				s := p.Strs[r.IntN(len(p.Strs))]
				if near {
					k := at + r.IntN(9+ln/4) - 4 - ln/8
					if k < 0 {
						k = 0
					}
					if k >= len(sortedIdx) {
						k = len(sortedIdx) - 1
					}
					s = p.Strs[sortedIdx[k]]
				}
				list = append(list, s)
				if r.IntN(4) == 0 && len(list) < ln { // duplicate
					list = append(list, s)
				}
				if r.IntN(3) == 0 && len(list) < ln { // Compare-equal respelling (if accepted)
					rs := gen.Respell(e.Name, s, r)
					if len(rs) > 0 {
						x := rs[r.IntN(len(rs))]
						if v, err, pn := e.SafeNewVersion(x); pn == nil && err == nil && v != nil && strings.TrimSpace(x) == x && x != "" &&
							(e.Name != "alpm" || alpmHasPkgrel(x) == alpmHasPkgrel(s)) {
							list = append(list, x)
						}
					}
				}
			}
			if n%5 == 4 || n%5 == 2 {
				// one whole generator cluster (a base with all its marker / revision / spelling / snapshot relatives)
				var cl []string
				fam := r.IntN(2) == 0
				for _, s := range gen.Cluster(e.Name, r) {
					if v, err, pn := e.SafeNewVersion(s); pn == nil && err == nil && v != nil && strings.TrimSpace(s) == s && s != "" &&
						(e.Name != "alpm" || alpmHasPkgrel(s) == fam) {
						cl = append(cl, s)
					}
				}
				r.Shuffle(len(cl), func(a, b int) { cl[a], cl[b] = cl[b], cl[a] })
				if len(cl) > 64 {
					cl = cl[:64]
				}
				if len(cl) >= 3 {
					list = cl
					w.Count("whole_cluster_lists", 1)
				}
			}
			if n%10 == 6 && len(sortedIdx) >= 16 {
				// nearly sorted input: 13..40 distinct members in descending (or ascending) order with the last one, two or
				// three out of place - "already sorted" fast paths check all pairs but the ones they forget
				ln := 13 + r.IntN(28)
				if ln > len(sortedIdx) {
					ln = len(sortedIdx)
				}
				at := r.IntN(len(sortedIdx) - ln + 1)
				ns := make([]string, 0, ln)
				for x := 0; x < ln; x++ {
					ns = append(ns, p.Strs[sortedIdx[at+x]])
				}
				if r.IntN(4) != 0 {
					for a, b := 0, len(ns)-1; a < b; a, b = a+1, b-1 {
						ns[a], ns[b] = ns[b], ns[a]
					}
				}
				for k := 1 + r.IntN(3); k > 0; k-- {
					x := len(ns) - 1 - r.IntN(3)
					ns[x] = p.Strs[sortedIdx[at+r.IntN(ln)]]
				}
				list = ns
				w.Count("nearly_sorted_lists", 1)
			}
			_, orig, ok := sortInProcess(e, list)
			if !ok {
				continue
			}
			if e.Name == "alpm" && n%8 == 7 {
				mixed := make([]string, 0, 6)
				for len(mixed) < 6 {
					mixed = append(mixed, full.Strs[r.IntN(len(full.Strs))])
				}
				w.Count("evaluations", 1)
				rep(evalC07(c, e, "sort-alpm-mixed-pkgrel", mixed))
			}
			if !isPreorder(orig) {
				w.Count("lists_on_which_compare_is_not_a_preorder", 1)
			}
			cs0, _ := classSeq(e, func() []string { o, _, _ := sortInProcess(e, list); return o }())
			dups := len(list) - len(uniq(list))
			nontrivial := len(cs0) >= 2 && (dups > 0 || len(cs0) < len(uniq(list)))
			var perms [][]int
			if len(list) <= 6 {
				perms = permutations(len(list), 720, r)
				perms = append(perms, identity(len(list)))
			} else {
				np := c.Scale(6, 40)
				if n%5 == 4 || n%5 == 2 { // whole-cluster lists: relatives of one base are all present, orders matter most
					np = c.Scale(30, 120)
				}
				perms = append(permutations(len(list), np, r), identity(len(list)))
			}
			for pi, pm := range perms {
				q := make([]string, len(list))
				for x, y := range pm {
					q[x] = list[y]
				}
				w.Count("evaluations", 1)
				w.Count("events:sort-in-process", 1)
				if nontrivial {
					w.NT(core.Hash64(e.Name, strings.Join(q, "\x00")))
				}
				rep(evalC07(c, e, "sort", q))
				if pi < c.Scale(1, 3) && n < c.Scale(10, 20) {
					w.Count("evaluations", 1)
					w.Count("events:cli-sort", 1)
					rep(evalC07(c, e, "cli-sort", q))
				}
			}
			// invalid element injection at every position (CLI)
			if n < c.Scale(2, 8) {
				bad := gen.Pick(r, "", "not a version!!", "@@", "1..", "x y", "\t")
				if v, err, pn := e.SafeNewVersion(bad); pn != nil || (err == nil && v != nil) {
					bad = "@@ @@"
				}
				short := list
				if len(short) > 5 {
					short = short[:5]
				}
				for pos := 0; pos <= len(short); pos++ {
					q := append(append(append([]string{}, short[:pos]...), bad), short[pos:]...)
					w.Count("evaluations", 1)
					w.Count("events:cli-sort-invalid", 1)
					rep(evalC07(c, e, "cli-sort-invalid", append(q, itoa(pos))))
				}
			}
			if n == 0 {
				w.Sample(map[string]any{"eco": e.Name, "list": list, "classes": len(cs0), "permutations": len(perms)})
			}
		}
	})
}

func uniq(l []string) []string {
	m := map[string]bool{}
	var out []string
	for _, s := range l {
		if !m[s] {
			m[s] = true
			out = append(out, s)
		}
	}
	return out
}

func identity(n int) []int {
	p := make([]int, n)
	for i := range p {
		p[i] = i
	}
	return p
}

// ---------------------------------------------------------------------------------------------
// C15

// libExpect computes what the CLI must print for argv, from the library. ok=false => failure expected.
func libExpect(argv []string) (stdout string, ok bool, class string, sortLists [][]string) {
	if len(argv) == 0 {
		return "", false, "no-args", nil
	}
	if argv[0] == "vers" {
		if len(argv) < 2 {
			return "", false, "vers-no-command", nil
		}
		if argv[1] != "contains" {
			return "", false, "vers-unknown-command", nil
		}
		if len(argv) != 4 {
			return "", false, "vers-arity", nil
		}
		got, err, pn := eco.SafeVersContains(argv[2], argv[3])
		if pn != nil {
			return "", false, "lib-panic", nil
		}
		if err != nil {
			return "", false, "vers-error", nil
		}
		return fmt.Sprintf("%t\n", got), true, "vers-ok", nil
	}
	e := eco.ByName(argv[0])
	if e == nil {
		return "", false, "unknown-ecosystem", nil
	}
	if len(argv) < 2 {
		return "", false, "no-command", nil
	}
	args := argv[2:]
	switch argv[1] {
	case "compare":
		if len(args) != 2 {
			return "", false, "compare-arity", nil
		}
		a, e1, p1 := e.SafeNewVersion(args[0])
		b, e2, p2 := e.SafeNewVersion(args[1])
		if p1 != nil || p2 != nil {
			return "", false, "lib-panic", nil
		}
		if e1 != nil || e2 != nil || a == nil || b == nil {
			return "", false, "compare-parse-failure", nil
		}
		cv, pn := eco.SafeCompare(a, b)
		if pn != nil {
			return "", false, "lib-panic", nil
		}
		return fmt.Sprintf("%d\n", cv), true, "compare-ok", nil
	case "contains":
		if len(args) != 2 {
			return "", false, "contains-arity", nil
		}
		r, e1, p1 := e.SafeNewRange(args[0])
		v, e2, p2 := e.SafeNewVersion(args[1])
		if p1 != nil || p2 != nil {
			return "", false, "lib-panic", nil
		}
		if e1 != nil || e2 != nil || r == nil || v == nil {
			return "", false, "contains-parse-failure", nil
		}
		got, pn := eco.SafeContains(r, v)
		if pn != nil {
			return "", false, "lib-panic", nil
		}
		return fmt.Sprintf("%t\n", got), true, "contains-ok", nil
	case "sort":
		if len(args) == 0 {
			return "", false, "sort-arity", nil
		}
		out, _, ok := sortInProcess(e, args)
		if !ok {
			return "", false, "sort-parse-failure", nil
		}
		var q []string
		for _, s := range out {
			q = append(q, strconv.Quote(s))
		}
		return strings.Join(q, " ") + "\n", true, "sort-ok", [][]string{out}
	}
	return "", false, "unknown-command", nil
}

// evalC15: op "cli", args = argv.
func evalC15(c *core.Ctx, _ *eco.Eco, op string, args []string) []core.Violation {
	bin, cleanup, err := cliBinary(c)
	if err != nil {
		return nil
	}
	defer cleanup()
	want, ok, class, lists := libExpect(args)
	if class == "lib-panic" {
		return nil // C06's finding
	}
	out, code, sig := runCLI(bin, args)
	if code == -2 {
		return nil
	}
	mk := func(rule, got, wantS string) []core.Violation {
		return []core.Violation{{Eco: "cli", Op: "cli", Args: args, Rule: class + ":" + rule, Got: got, Want: wantS}}
	}
	if code == -1 || code == -3 {
		return mk("signal-or-hang", sig, "exit")
	}
	if ok {
		if code != 0 {
			return mk("exit-status", itoa(code)+" "+trunc(out, 160), "0 and "+strconv.Quote(want))
		}
		if out != want {
			if class == "sort-ok" {
				// equal elements may be ordered differently by another correct sort: compare class sequences
				e := eco.ByName(args[0])
				got, okq := parseQuoted(out)
				if okq && sameMultiset(got, lists[0]) {
					a, ok1 := classSeq(e, got)
					b, ok2 := classSeq(e, lists[0])
					if ok1 && ok2 && fmt.Sprint(a) == fmt.Sprint(b) && strings.Count(out, "\n") == 1 {
						return nil
					}
				}
			}
			return mk("stdout", strconv.Quote(trunc(out, 200)), strconv.Quote(trunc(want, 200)))
		}
		return nil
	}
	if code != 1 {
		return mk("exit-status", itoa(code)+" "+trunc(out, 160), "1 (failure: "+class+")")
	}
	if resultShaped.MatchString(strings.TrimSuffix(out, "\n")) {
		return mk("result-on-failure", strconv.Quote(trunc(out, 200)), "a diagnostic")
	}
	if strings.TrimSpace(out) == "" {
		return mk("no-diagnostic", "empty", "a diagnostic")
	}
	return nil
}

func runC15(c *core.Ctx, ck *Check) {
	bin := filepath.Join(c.Dir, ".build", "univers.C15."+itoa(os.Getpid()))
	if err := buildCLI(bin); err != nil {
		c.Inconclusive("cannot build /repo/cmd: " + err.Error())
		return
	}
	cliBinPath = bin
	defer func() { os.Remove(bin); cliBinPath = "" }()
	evalWitnesses(c, ck)
	all := eco.All()
	names := append(eco.Names(), "vers")
	per := c.Scale(260, 6000)
	type job struct {
		name string
		k    int
	}
	var jobs []job
	const chunk = 20
	for _, n := range append(names, "nosuch", "NPM", "Vers", "deb", "semver ", "") {
		for k := 0; k < per/chunk; k++ {
			jobs = append(jobs, job{n, k})
		}
	}
	c.Parallel(len(jobs), func(w *core.W, i int) {
		j := jobs[i]
		r := c.Rand("c15", j.name, itoa(j.k))
		gname := j.name
		if eco.ByName(gname) == nil {
			gname = eco.Names()[r.IntN(20)]
		}
		// a discriminating candidate: a pair / range+version on which at least two ecosystems disagree
		discriminating := func(argv []string) bool {
			if len(argv) < 4 {
				return false
			}
			seen := map[string]bool{}
			for _, o := range all {
				a2 := append([]string{o.Name}, argv[1:]...)
				out, ok, _, _ := libExpect(a2)
				seen[fmt.Sprint(ok, out)] = true
			}
			return len(seen) >= 2
		}
		for k := 0; k < chunk; k++ {
			var argv []string
			ver := func() string {
				switch r.IntN(10) {
				case 0:
					return gen.Hostile(gen.One(gname, r), r)
				case 1:
					return gen.Pick(r, "", " ", "-1", "--", "a b", "'1.0'", "\"1.0\"", " 1.0.0", "1.0.0 ", "-rc1")
				case 2:
					return gen.One(eco.Names()[r.IntN(20)], r)
				}
				return gen.One(gname, r)
			}
			rng := func() string {
				switch r.IntN(9) {
				case 8:
					// a complete VERS URI where the ecosystem's native range is expected, the scheme being this ecosystem's own
					// name, its VERS scheme name or another one: the native parser's verdict must be the CLI's
					sc := gen.Pick(r, j.name, gname, Schemes[r.IntN(len(Schemes))])
					return "vers:" + sc + "/" + gen.Pick(r, ">=", "<", "=", "!=") + gen.One(gname, r) + gen.Pick(r, "", "|<"+gen.One(gname, r), "|!="+gen.One(gname, r))
				case 0:
					return gen.Hostile(gen.RangeOne(gname, r), r)
				case 1:
					return gen.RangeOne(eco.Names()[r.IntN(20)], r)
				}
				return gen.RangeOne(gname, r)
			}
			if j.name == "vers" {
				sc := Schemes[r.IntN(len(Schemes))]
				en := SchemeEco[sc]
				gname = en
				vr := "vers:" + sc + "/" + gen.Pick(r, ">=", "<", "=", "!=", ">", "<=") + gen.One(en, r) + gen.Pick(r, "", "|<"+gen.One(en, r), "|!="+gen.One(en, r), "|>="+gen.One(en, r)+"|<"+gen.One(en, r))
				switch r.IntN(8) {
				case 0:
					argv = []string{"vers", "contains", gen.Hostile(vr, r), gen.One(en, r)}
				case 1:
					argv = []string{"vers", gen.Pick(r, "compare", "sort", "", "Contains"), vr, gen.One(en, r)}
				case 2:
					argv = []string{"vers", "contains", vr}
				case 3:
					argv = []string{"vers", "contains", vr, gen.One(en, r), "extra"}
				case 4:
					argv = []string{"vers"}
				default:
					argv = []string{"vers", "contains", vr, ver()}
				}
			} else {
				cmd := gen.Pick(r, "compare", "compare", "sort", "contains", "contains", "nosuch", "", "Compare")
				argv = []string{j.name, cmd}
				switch cmd {
				case "compare":
					for n := gen.Pick(r, "2", "2", "2", "2", "0", "1", "3"); len(argv)-2 < int(n[0]-'0'); {
						argv = append(argv, ver())
					}
				case "contains":
					switch r.IntN(8) {
					case 0:
						argv = append(argv, rng())
					case 1:
						argv = append(argv, rng(), ver(), ver())
					case 2: // swapped order
						argv = append(argv, ver(), rng())
					default:
						argv = append(argv, rng(), ver())
					}
				case "sort":
					cnt := r.IntN(6)
					if r.IntN(12) == 0 {
						cnt = []int{63, 64, 65, 66, 67, 101, 130}[r.IntN(7)]
					}
					for n := cnt; n > 0; n-- {
						if cnt > 6 {
							argv = append(argv, gen.One(gname, r)) // long lists: valid elements, the last one below may not be
						} else {
							argv = append(argv, ver())
						}
					}
					if e := eco.ByName(j.name); e != nil && r.IntN(6) == 0 {
						// a newest-first listing of 13..30 versions with a candidate appended
						var vs []eco.Ver
						var ss []string
						for t := 0; t < 200 && len(ss) < 13+r.IntN(18); t++ {
							x := gen.One(gname, r)
							if v, err, pn := e.SafeNewVersion(x); pn == nil && err == nil && v != nil && !strings.HasPrefix(x, "-") && strings.TrimSpace(x) == x && x != "" {
								vs, ss = append(vs, v), append(ss, x)
							}
						}
						idx := make([]int, len(ss))
						for x := range idx {
							idx[x] = x
						}
						sort.SliceStable(idx, func(a, b int) bool { c, _ := eco.SafeCompare(vs[idx[a]], vs[idx[b]]); return c > 0 })
						argv = argv[:2]
						for _, x := range idx {
							argv = append(argv, ss[x])
						}
						if len(ss) > 3 {
							argv = append(argv, ss[idx[len(idx)/2]], ss[idx[1]])[:len(argv)+1+r.IntN(2)]
						}
						cnt = 0
					}
					if cnt > 6 && r.IntN(3) == 0 {
						argv = append(argv, "not a version @@")
					}
					// an element whose text needs escaping when quoted (control characters, quotes, backslash,
					// surrounding blanks), if this ecosystem's parser accepts such a spelling
					if e := eco.ByName(j.name); e != nil && r.IntN(2) == 0 {
						base := gen.One(gname, r)
						for _, v := range []string{base + "\t", "\n" + base, "\"" + base + "\"", base + "\\", base + "\r", " " + base, base + " \"x", "'" + base + "'", base + "\x7f"} {
							if pv, err, pn := e.SafeNewVersion(v); pn == nil && err == nil && pv != nil && r.IntN(2) == 0 {
								argv = append(argv, v)
							}
						}
					}
				default:
					for n := r.IntN(3); n > 0; n-- {
						argv = append(argv, ver())
					}
				}
				if r.IntN(40) == 0 {
					argv = argv[:1]
				}
				if r.IntN(60) == 0 {
					argv = nil
				}
			}
			// word order: the first two arguments swapped (sub-command before the ecosystem), the ecosystem repeated, the
			// sub-command repeated - a front end that guesses what was meant answers where it must report an unknown ecosystem
			if len(argv) >= 2 && r.IntN(12) == 0 {
				switch r.IntN(3) {
				case 0:
					argv[0], argv[1] = argv[1], argv[0]
				case 1:
					argv = append([]string{argv[1]}, argv...)
				default:
					argv = append([]string{argv[0]}, argv...)
				}
				w.Count("reordered_argvs", 1)
			}
			// transport encodings of the same argument (percent-encoding of the comparators only / of every non-alphanumeric
			// byte / lower-case hex, HTML entities, \uXXXX escapes, '+' for blanks): a front end that "helpfully" decodes
			// one of them answers where the library reports a parse failure
			if len(argv) > 2 && r.IntN(5) == 0 {
				enc := r.IntN(6)
				all := r.IntN(2) == 0
				for x := 2; x < len(argv); x++ {
					if all || x == 2 {
						argv[x] = transportEncode(argv[x], enc)
					}
				}
				w.Count("transport_encoded_argvs", 1)
			}
			for x := range argv {
				argv[x] = strings.ReplaceAll(argv[x], "\x00", "")
			}
			_, _, class, _ := libExpect(argv)
			d := discriminating(argv)
			w.Count("evaluations", 1)
			w.Count("class:"+class, 1)
			if d {
				w.Count("discriminating", 1)
			}
			ac := len(argv)
			w.NT(core.Hash64(j.name, class, itoa(ac), fmt.Sprint(d)))
			for _, v := range evalC15(c, nil, "cli", argv) {
				w.Report(v)
			}
			if k == 0 && j.k == 0 {
				w.Sample(map[string]any{"argv": argv, "expected_class": class, "discriminating": d})
			}
		}
	})
}

// transportEncode writes s in one of six transport encodings.
func transportEncode(s string, enc int) string {
	const ops = "<>=!*|~^, "
	var b strings.Builder
	for i := 0; i < len(s); i++ {
		ch := s[i]
		alnum := ch >= '0' && ch <= '9' || ch >= 'a' && ch <= 'z' || ch >= 'A' && ch <= 'Z'
		isOp := strings.IndexByte(ops, ch) >= 0
		switch enc {
		case 0: // comparators only, upper-case hex
			if isOp {
				fmt.Fprintf(&b, "%%%02X", ch)
			} else {
				b.WriteByte(ch)
			}
		case 1: // every non-alphanumeric byte except the vers:scheme/ punctuation
			if alnum || ch == ':' || ch == '/' || ch == '.' || ch == '-' {
				b.WriteByte(ch)
			} else {
				fmt.Fprintf(&b, "%%%02X", ch)
			}
		case 2: // comparators only, lower-case hex
			if isOp {
				fmt.Fprintf(&b, "%%%02x", ch)
			} else {
				b.WriteByte(ch)
			}
		case 3: // HTML entities
			switch ch {
			case '<':
				b.WriteString("&lt;")
			case '>':
				b.WriteString("&gt;")
			case '&':
				b.WriteString("&amp;")
			case '|':
				b.WriteString("&#124;")
			default:
				b.WriteByte(ch)
			}
		case 4: // \uXXXX for the comparators
			if isOp {
				fmt.Fprintf(&b, "\\u%04x", ch)
			} else {
				b.WriteByte(ch)
			}
		default: // form encoding: '+' for blank, the rest percent-encoded
			switch {
			case ch == ' ':
				b.WriteByte('+')
			case alnum || ch == '.' || ch == '-' || ch == ':' || ch == '/':
				b.WriteByte(ch)
			default:
				fmt.Fprintf(&b, "%%%02X", ch)
			}
		}
	}
	return b.String()
}
