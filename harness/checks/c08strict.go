package checks

import (
	"strings"

	"verif/harness/core"
	"verif/harness/eco"
	"verif/harness/gen"
	"verif/harness/ref"
)

// The strict semver ecosystem must reject what SemVer 2.0.0 rejects.
func evalSemverStrict(s string) []core.Violation {
	e := eco.ByName("semver")
	if ref.SemverValid(strings.TrimSpace(s)) {
		return nil
	}
	v, err, pn := e.SafeNewVersion(s)
	if pn != nil {
		return []core.Violation{{Eco: "semver", Op: "strict", Args: []string{s}, Rule: "panic", Got: pn.Value}}
	}
	if err == nil && v != nil {
		return []core.Violation{{Eco: "semver", Op: "strict", Args: []string{s}, Rule: "semver/grammar", Got: "accepted", Want: "rejected (invalid per SemVer 2.0.0)"}}
	}
	return nil
}

func runSemverStrict(c *core.Ctx) {
	n := c.Scale(60000, 3000000)
	const chunk = 5000
	c.Parallel(n/chunk, func(w *core.W, i int) {
		r := c.Rand("strict", itoa(i))
		for k := 0; k < chunk; k++ {
			s := gen.One("semver", r)
			// near-valid corruption
			switch r.IntN(12) {
			case 0:
				s = "0" + s
			case 1:
				s = strings.Replace(s, ".", ".0", 1)
			case 2:
				s = strings.Replace(s, "-", "-0", 1)
			case 3:
				s = strings.Replace(s, ".", "..", 1)
			case 4:
				s += gen.Pick(r, ".", "-", "+", "+.", "-.", ".0", "..")
			case 5:
				if k := strings.LastIndexByte(s, '.'); k > 0 {
					s = s[:k] + s[k+2:]
				}
			case 6:
				s = gen.Pick(r, "v", "=", " ", "V") + s
			case 7:
				s = strings.Replace(s, ".", ".00", 1)
			case 8:
				if k := strings.IndexByte(s, '-'); k > 0 {
					s = s[:k+1] + gen.Pick(r, "01", "00", "007", "1.02", "a..b", ".a", "a.", "a.01", "01a") + gen.Pick(r, "", "+b")
				}
			case 9:
				s = gen.Hostile(s, r)
			}
			w.Count("strict:tried", 1)
			if !ref.SemverValid(strings.TrimSpace(s)) {
				w.Count("strict:reference-rejects", 1)
				w.Count("evaluations", 1)
				w.NT(core.Hash64("strict", s))
				for _, v := range evalSemverStrict(s) {
					w.Report(v)
				}
			}
		}
	})
}
