package checks

import (
	"math/rand/v2"
	"strings"

	"verif/harness/core"
	"verif/harness/eco"
)

func init() {
	ck := &Check{
		ID: "C16",
		Rule: "per scheme: base ranges with 1..7 constraints (any comparator sequence, not only alternating ones) over pairwise non-equivalent versions of a pool, " +
			"accepted without error; each is respelled by permutation of constraints (all permutations for <=4 constraints at quick / <=6 at thorough, sampled beyond), " +
			"space insertion at random positions after the '/', duplication of a constraint, and empty constraints ('|' prefixes, suffixes, doublings); " +
			"(bool, err==nil) of vers.Contains must coincide for every probe. Non-trivial = distinct (scheme, base range, transform kind) with >=2 constraints or a space inside a constraint",
		Assumptions: []string{"only ASCII space is inserted; '*' ranges are not duplicated (the spec forbids a second star)"},
		MinEvals:    30000,
	}
	ck.Eval = evalC16
	ck.Run = func(c *core.Ctx) { runC16(c, ck) }
	register(ck)
}

// evalC16: op "vers-meta", args [R, R', probe, kind].
func evalC16(c *core.Ctx, _ *eco.Eco, op string, args []string) []core.Violation {
	if len(args) < 3 {
		return nil
	}
	base, alt, probe := args[0], args[1], args[2]
	kind := ""
	if len(args) > 3 {
		kind = args[3]
	}
	scheme, cons, _, ok := parseVersText(base)
	if !ok {
		return nil
	}
	en, ok := SchemeEco[scheme]
	if !ok {
		return nil
	}
	e := eco.ByName(en)
	// quantifier: constraint versions pairwise non-equivalent
	var vs []eco.Ver
	for _, cn := range cons {
		v, err, pn := e.SafeNewVersion(cn.txt)
		if pn != nil || err != nil || v == nil {
			return nil
		}
		vs = append(vs, v)
	}
	for i := range vs {
		for j := i + 1; j < len(vs); j++ {
			if cv, pn := eco.SafeCompare(vs[i], vs[j]); pn != nil || cv == 0 {
				return nil
			}
		}
	}
	if pv, err, pn := e.SafeNewVersion(probe); pn != nil || err != nil || pv == nil {
		return nil
	}
	g1, e1, p1 := eco.SafeVersContains(base, probe)
	if p1 != nil || e1 != nil {
		return nil // base not "accepted without error" (panics are C06's)
	}
	g2, e2, p2 := eco.SafeVersContains(alt, probe)
	mk := func(got string) []core.Violation {
		rule := kind
		var texts []string
		for _, cn := range cons {
			texts = append(texts, cn.txt)
		}
		if inheritedNonTransitive(e, append(texts, probe)) {
			rule += ":inherited-from-reference"
		}
		return []core.Violation{{Eco: "vers", Op: "vers-meta", Args: []string{base, alt, probe, kind}, Rule: rule, Got: got, Want: b2s(g1) + ",nil"}}
	}
	if p2 != nil {
		return mk("panic: " + p2.Value)
	}
	if e2 != nil {
		return mk("error: " + e2.Error())
	}
	if g1 != g2 {
		return mk(b2s(g2) + ",nil")
	}
	return nil
}

func insertSpaces(r *rand.Rand, cons string, n int) string {
	b := []byte(cons)
	for ; n > 0; n-- {
		p := r.IntN(len(b) + 1)
		b = append(b[:p], append([]byte{' '}, b[p:]...)...)
	}
	return string(b)
}

func permutations(n int, limit int, r *rand.Rand) [][]int {
	if n <= 1 {
		return nil
	}
	fact := 1
	for i := 2; i <= n && fact <= 1<<20; i++ {
		fact *= i
	}
	var out [][]int
	if fact <= limit {
		var rec func(cur []int, used []bool)
		rec = func(cur []int, used []bool) {
			if len(cur) == n {
				out = append(out, append([]int{}, cur...))
				return
			}
			for i := 0; i < n; i++ {
				if !used[i] {
					used[i] = true
					rec(append(cur, i), used)
					used[i] = false
				}
			}
		}
		rec(nil, make([]bool, n))
		return out[1:] // drop identity
	}
	for k := 0; k < limit; k++ {
		out = append(out, r.Perm(n))
	}
	return out
}

func runC16(c *core.Ctx, ck *Check) {
	evalWitnesses(c, ck)
	pools := c.Scale(2, 16)
	bases := c.Scale(60, 240)
	permLimit := c.Scale(24, 720)
	type job struct {
		scheme string
		k      int
	}
	var jobs []job
	for _, s := range Schemes {
		for k := 0; k < pools; k++ {
			jobs = append(jobs, job{s, k})
		}
	}
	c.Parallel(len(jobs), func(w *core.W, i int) {
		j := jobs[i]
		e := eco.ByName(SchemeEco[j.scheme])
		r := c.Rand("c16", j.scheme, itoa(j.k))
		raw := BuildPool(e, r, 70, w)
		p := &Pool{Eco: e}
		for x, s := range raw.Strs {
			if embeddable(s) {
				p.Strs, p.Vers = append(p.Strs, s), append(p.Vers, raw.Vers[x])
			}
		}
		idx := p.SortedIdx()
		var chain []int
		for _, x := range idx {
			if len(chain) == 0 {
				chain = append(chain, x)
			} else if cv, pn := eco.SafeCompare(p.Vers[chain[len(chain)-1]], p.Vers[x]); pn == nil && cv < 0 {
				chain = append(chain, x)
			}
		}
		if len(chain) < 9 {
			w.Count("pools_too_small", 1)
			return
		}
		probes := r.Perm(len(p.Strs))
		if len(probes) > 24 {
			probes = probes[:24]
		}
		reported := map[string]int{}
		for b := 0; b < bases; b++ {
			k := 1 + r.IntN(7)
			pick := r.Perm(len(chain))[:k]
			if b%3 != 0 {
				// neighbours in the scheme's order (cluster mates: the same numbers with another marker, separator or
				// spelling), in shuffled textual order: where an order that is not quite transitive shows
				start := r.IntN(len(chain) - k + 1)
				for x := range pick {
					pick[x] = start + x
				}
				r.Shuffle(k, func(a, b int) { pick[a], pick[b] = pick[b], pick[a] })
			}
			parts := make([]string, k)
			for x := 0; x < k; x++ {
				parts[x] = versOps[r.IntN(len(versOps))] + p.Strs[chain[pick[x]]]
			}
			base := "vers:" + j.scheme + "/" + strings.Join(parts, "|")
			// the same constraint text is first seen under two OTHER schemes: state that survives between calls
			// (a cache keyed on the constraint text) must not leak into this scheme's evaluation
			if b%2 == 0 {
				for x := 0; x < 2; x++ {
					other := Schemes[r.IntN(len(Schemes))]
					if other != j.scheme {
						eco.SafeVersContains("vers:"+other+"/"+strings.Join(parts, "|"), p.Strs[r.IntN(len(p.Strs))])
						w.Count("foreign_scheme_pretouches", 1)
					}
				}
			}
			if _, err, pn := eco.SafeVersContains(base, p.Strs[0]); pn != nil || err != nil {
				w.Count("base_not_accepted", 1)
				continue
			}
			type alt struct{ text, kind string }
			var alts []alt
			for _, pm := range permutations(k, permLimit, r) {
				q := make([]string, k)
				for x, y := range pm {
					q[x] = parts[y]
				}
				alts = append(alts, alt{"vers:" + j.scheme + "/" + strings.Join(q, "|"), "permutation"})
			}
			for n := 0; n < 6; n++ {
				q := append([]string{}, parts...)
				for x := range q {
					if r.IntN(2) == 0 {
						q[x] = insertSpaces(r, q[x], 1+r.IntN(3))
					}
				}
				alts = append(alts, alt{"vers:" + j.scheme + "/" + strings.Join(q, "|"), "whitespace"})
			}
			alts = append(alts, alt{"vers:" + j.scheme + "/ " + strings.Join(parts, " | ") + " ", "whitespace"})
			for n := 0; n < 3; n++ {
				d := r.IntN(k)
				q := append([]string{}, parts...)
				at := r.IntN(len(q) + 1)
				q = append(q[:at], append([]string{parts[d]}, q[at:]...)...)
				alts = append(alts, alt{"vers:" + j.scheme + "/" + strings.Join(q, "|"), "duplicate"})
			}
			alts = append(alts,
				alt{"vers:" + j.scheme + "/|" + strings.Join(parts, "|"), "empty-constraint"},
				alt{"vers:" + j.scheme + "/" + strings.Join(parts, "|") + "|", "empty-constraint"},
				alt{"vers:" + j.scheme + "/" + strings.Join(parts, "||"), "empty-constraint"},
				alt{"vers:" + j.scheme + "/" + strings.Join(parts, "| |"), "empty-constraint"})
			type br struct {
				g  bool
				e  error
				pn *eco.Panic
			}
			baseRes := make([]br, len(probes))
			if b%4 == 2 {
				// a REJECTED sibling first: the same constraints followed by one the ecosystem rejects (a typo, then the
				// correction). Whatever a failed evaluation leaves behind (pooled scratch sets, half-filled tables) must
				// not leak into the evaluation of the base spelling
				gs := []string{"..", "-", "..1", "@@", "+", "~", ".", "_", "a..b", "-.-"}
				_, v := splitVersCons(parts[k-1])
				for tries := 0; tries < 6; tries++ {
					sib := base + "|" + versOps[r.IntN(len(versOps))] + v + gs[r.IntN(len(gs))]
					if _, err, _ := eco.SafeVersContains(sib, p.Strs[probes[0]]); err != nil {
						w.Count("rejected_sibling_pretouches", 1)
						break
					}
				}
			}
			if b%2 == 1 {
				// twin questions first (the same two texts glued together, split at another place): an answer kept under a
				// key without separator must not be served to the base spelling
				for _, pi := range probes {
					for _, tq := range twinQuestions(base, p.Strs[pi]) {
						eco.SafeVersContains(tq[0], tq[1])
						w.Count("twin_question_pretouches", 1)
					}
				}
			}
			for x, pi := range probes {
				g, e1, p1 := eco.SafeVersContains(base, p.Strs[pi])
				baseRes[x] = br{g, e1, p1}
			}
			for _, a := range alts {
				if k >= 2 || a.kind == "whitespace" {
					w.NT(core.Hash64(j.scheme, base, a.kind))
				}
				for x, pi := range probes {
					g1, e1, p1 := baseRes[x].g, baseRes[x].e, baseRes[x].pn
					g2, e2, p2 := eco.SafeVersContains(a.text, p.Strs[pi])
					w.Count("evaluations", 1)
					w.Count("transform:"+a.kind, 1)
					if p1 != nil || (e1 != nil && (e2 != nil || p2 != nil)) {
						continue
					}
					// the base spelling was accepted a moment ago (acceptance check above): an error now, while a
					// respelling is answered, is a difference like any other
					if e1 != nil || p2 != nil || e2 != nil || g1 != g2 {
						if reported[a.kind] < 5 {
							vs := evalC16(c, nil, "vers-meta", []string{base, a.text, p.Strs[pi], a.kind})
							// "asked again, both agree": only then was the first difference an effect of earlier calls (evalC16 also
							// returns nothing for cases outside the quantifier, e.g. Compare-equal constraint versions)
							ga, ea, pa := eco.SafeVersContains(base, p.Strs[pi])
							gb, eb, pb := eco.SafeVersContains(a.text, p.Strs[pi])
							agreeNow := pa == nil && pb == nil && (ea == nil) == (eb == nil) && (ea != nil || ga == gb)
							if len(vs) == 0 && agreeNow {
								// not reproducible when asked again: the first answer depended on what an earlier call left behind
								vs = []core.Violation{{Eco: "vers", Op: "vers-meta", Args: []string{base, a.text, p.Strs[pi], a.kind}, Rule: a.kind + ":answer-depended-on-earlier-calls",
									Got: b2s(g2) + "," + errNil(e2), Want: b2s(g1) + "," + errNil(e1), Detail: "want = first answer for the base spelling, got = answer for the respelling; asked again, both agree"}}
							}
							for _, v := range vs {
								reported[a.kind]++
								w.Report(v)
							}
						}
						w.Count("differences", 1)
					}
				}
			}
			if b == 0 {
				w.Sample(map[string]any{"scheme": j.scheme, "base": base, "respellings": len(alts), "first_respelling": alts[0].text})
			}
		}
		w.Count("events:VersContains", 0)
	})
}
