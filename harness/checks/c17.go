package checks

import (
	"strings"

	"verif/harness/core"
	"verif/harness/eco"
)

func init() {
	ck := &Check{
		ID: "C17",
		Rule: "validation: every single-point corruption (delete / replace / insert at each position with a syntax-relevant character set incl. control and non-ASCII bytes, " +
			"scheme case changes, operator mangling, near-miss scheme names) of generated valid VERS ranges; when a listed rule R1-R12 (DESIGN Appendix C) is violated the call must return " +
			"(false, error). routing: for every scheme, (range, probe) pairs on which the intended ecosystem and at least one other supported ecosystem disagree (validity or order), " +
			"found by search over all 11 adapters, must be answered as the intended ecosystem's denotation says. Non-trivial = distinct (rule, corruption kind, scheme) and distinct (scheme, rival scheme) discriminations",
		Assumptions: []string{"validator versRuleViolated in checks/c17.go transcribes the property's list; version validity is decided by calling the scheme ecosystem's own NewVersion", "the lone '*' range is excluded"},
		MinEvals:    30000,
	}
	ck.Eval = evalC17
	ck.Run = func(c *core.Ctx) { runC17(c, ck) }
	register(ck)
}

// versRuleViolated returns the first listed rule that text/probe violates, "" when none does,
// and "skip" for the lone-star range.
func versRuleViolated(text, probe string) string {
	if !strings.HasPrefix(text, "vers:") {
		return "R1-no-vers-prefix"
	}
	for i := 0; i < len(text); i++ {
		if text[i] < 0x20 || text[i] > 0x7e {
			return "R9-nonprintable-or-nonascii"
		}
	}
	rest := text[5:]
	k := strings.IndexByte(rest, '/')
	if k < 0 {
		return "R2-no-slash"
	}
	scheme := rest[:k]
	if scheme == "" {
		return "R3-empty-scheme"
	}
	for i := 0; i < len(scheme); i++ {
		ch := scheme[i]
		if !(ch >= 'a' && ch <= 'z' || ch >= '0' && ch <= '9') {
			return "R4-scheme-charset"
		}
	}
	var cons []string
	stars := 0
	for _, c := range strings.Split(rest[k+1:], "|") {
		c = strings.ReplaceAll(c, " ", "")
		if c == "" {
			continue
		}
		if c == "*" {
			stars++
			continue
		}
		cons = append(cons, c)
	}
	if stars == 1 && len(cons) == 0 {
		return "skip"
	}
	if stars > 1 || (stars == 1 && len(cons) > 0) {
		return "R10-misplaced-star"
	}
	en, ok := SchemeEco[scheme]
	if !ok {
		return "R5-unsupported-scheme"
	}
	if len(cons) == 0 {
		return "R6-no-constraint"
	}
	e := eco.ByName(en)
	for _, c := range cons {
		op, v := splitVersCons(c)
		if op == "" {
			return "R7-no-comparator"
		}
		if v == "" {
			return "R8-no-version"
		}
		if pv, err, pn := e.SafeNewVersion(v); pn == nil && (err != nil || pv == nil) {
			return "R11-constraint-version-rejected"
		}
	}
	if pv, err, pn := e.SafeNewVersion(probe); pn == nil && (err != nil || pv == nil) {
		return "R12-probe-rejected"
	}
	return ""
}

// evalC17: op "vers-invalid" args [text, probe, kind]; op "vers-route" args [text, probe, rival].
func evalC17(c *core.Ctx, _ *eco.Eco, op string, args []string) []core.Violation {
	if len(args) < 2 {
		return nil
	}
	switch op {
	case "vers-invalid":
		rule := versRuleViolated(args[0], args[1])
		if rule == "" || rule == "skip" {
			return nil
		}
		got, err, pn := eco.SafeVersContains(args[0], args[1])
		if pn != nil {
			return []core.Violation{{Eco: "vers", Op: op, Args: args, Rule: "panic", Got: pn.Value}}
		}
		if err == nil || got {
			return []core.Violation{{Eco: "vers", Op: op, Args: args, Rule: rule, Got: b2s(got) + "," + errNil(err), Want: "false,error"}}
		}
	case "vers-route":
		vs := evalC04(c, nil, "vers", args[:2])
		for i := range vs {
			vs[i].Op = op
			vs[i].Args = args
			vs[i].Rule = "route:" + vs[i].Rule
		}
		return vs
	}
	return nil
}

func errNil(err error) string {
	if err == nil {
		return "nil"
	}
	return "error"
}

var corruptChars = []string{"", "\x00", "\t", "\n", "\x7f", "\xc3\xa9", "\xff", " ", "|", "/", ":", "*", "=", "<", ">", "!", "~", "^", ",", "a", "Z", "0", "-", ".", "+", "%", "v"}

func runC17(c *core.Ctx, ck *Check) {
	evalWitnesses(c, ck)
	nBase := c.Scale(40, 1200)
	type job struct {
		scheme string
		k      int
	}
	var jobs []job
	for _, s := range Schemes {
		jobs = append(jobs, job{s, 0})
	}
	nearMiss := []string{"NPM", "Npm", "npm ", " npm", "np", "npmm", "debian", "semver", "go", "ruby", "rubygems", "python", "pip", "apk", "Deb", "generic1", "", "mvn", "crates", "nugetx", "rpm-", "alpine_"}
	c.Parallel(len(jobs), func(w *core.W, i int) {
		j := jobs[i]
		e := eco.ByName(SchemeEco[j.scheme])
		r := c.Rand("c17", j.scheme)
		raw := BuildPool(e, r, 80, w)
		var strs []string
		for _, s := range raw.Strs {
			if embeddable(s) {
				strs = append(strs, s)
			}
		}
		if len(strs) < 6 {
			return
		}
		reported := map[string]int{}
		check := func(text, probe, kind string) {
			rule := versRuleViolated(text, probe)
			w.Count("evaluations", 1)
			if rule == "" {
				w.Count("corruption_still_valid", 1)
				return
			}
			if rule == "skip" {
				return
			}
			w.Count("rule:"+rule, 1)
			w.NT(core.Hash64(rule, kind, j.scheme))
			for _, v := range evalC17(c, nil, "vers-invalid", []string{text, probe, kind}) {
				if reported[v.Rule+kind] < 3 {
					reported[v.Rule+kind]++
					w.Report(v)
				}
			}
		}
		// long homogeneous lists (size thresholds: fast paths for "32 or more = items" and the like): 16..100 constraints
		// with ONE operator throughout (or mixed), one entry damaged (a version the scheme rejects, a missing comparator, a
		// missing version), the probe being a listed version verbatim, a version equal to a listed one, or an unlisted one
		for b := 0; b < c.Scale(24, 200); b++ {
			cnt := []int{16, 31, 32, 33, 40, 64, 65, 100}[r.IntN(8)]
			op := versOps[r.IntN(len(versOps))]
			if r.IntN(2) == 0 {
				op = "="
			}
			parts := make([]string, cnt)
			for x := range parts {
				o := op
				if b%5 == 4 {
					o = versOps[r.IntN(len(versOps))]
				}
				parts[x] = o + strs[r.IntN(len(strs))]
			}
			bad := r.IntN(cnt)
			good := append([]string{}, parts...)
			switch r.IntN(4) {
			case 0:
				parts[bad] = op + "not a version !!"
			case 1:
				parts[bad] = strs[r.IntN(len(strs))] // no comparator
			case 2:
				parts[bad] = op // no version
			default:
				parts[bad] = op + []string{"1.0~rc1@", "1..2..", "v", "1:2:3:4", "^", "1.0 || 2.0", "\x01"}[r.IntN(7)]
			}
			var probes []string
			for x := 0; x < 3; x++ {
				_, v := splitVersCons(good[r.IntN(cnt)])
				probes = append(probes, v)
			}
			_, first := splitVersCons(good[0])
			_, last := splitVersCons(good[cnt-1])
			probes = append(probes, first, last, strs[r.IntN(len(strs))])
			for _, pr := range probes {
				check("vers:"+j.scheme+"/"+strings.Join(parts, "|"), pr, "long-list-one-bad-entry")
			}
		}
		for b := 0; b < nBase; b++ {
			k := 1 + r.IntN(4)
			parts := make([]string, k)
			for x := range parts {
				parts[x] = versOps[r.IntN(len(versOps))] + strs[r.IntN(len(strs))]
			}
			base := "vers:" + j.scheme + "/" + strings.Join(parts, "|")
			probe := strs[r.IntN(len(strs))]
			if b == 0 {
				w.Sample(map[string]any{"scheme": j.scheme, "base": base, "probe": probe})
			}
			for pos := 0; pos <= len(base); pos++ {
				if pos < len(base) {
					check(base[:pos]+base[pos+1:], probe, "delete")
				}
				for n := 0; n < 3; n++ {
					ch := corruptChars[1+r.IntN(len(corruptChars)-1)]
					check(base[:pos]+ch+base[pos:], probe, "insert")
					if pos < len(base) {
						check(base[:pos]+ch+base[pos+1:], probe, "replace")
					}
				}
			}
			// scheme case / near-miss names / operator mangling / star misuse / bad probe
			check("vers:"+strings.ToUpper(j.scheme)+"/"+strings.Join(parts, "|"), probe, "scheme-case")
			check("VERS:"+j.scheme+"/"+strings.Join(parts, "|"), probe, "prefix-case")
			check("vers:"+strings.ToUpper(j.scheme[:1])+j.scheme[1:]+"/"+strings.Join(parts, "|"), probe, "scheme-case")
			for _, nm := range nearMiss {
				check("vers:"+nm+"/"+strings.Join(parts, "|"), probe, "near-miss-scheme")
			}
			for _, bad := range []string{"=>", "=<", "~", "^", "~>", "", "==", "<>", "=!", "!", "<<", ">>", "~="} {
				q := append([]string{}, parts...)
				x := r.IntN(k)
				_, v := splitVersCons(q[x])
				q[x] = bad + v
				check("vers:"+j.scheme+"/"+strings.Join(q, "|"), probe, "operator-mangling")
			}
			// the canonical two-bound interval with one surplus character after a comparator (>==a|<b, >=a|<==b): whatever
			// path evaluates this most common shape must validate the comparators like every other path
			if len(strs) >= 2 {
				a, b2 := strs[r.IntN(len(strs))], strs[r.IntN(len(strs))]
				if va, _, _ := e.SafeNewVersion(a); va != nil {
					if vb, _, _ := e.SafeNewVersion(b2); vb != nil {
						if cv, _ := eco.SafeCompare(va, vb); cv > 0 {
							a, b2 = b2, a
						}
						for _, m := range [][2]string{{">==", "<"}, {">=", "<=="}, {">===", "<"}, {">", "<=="}, {">=", "<<"}, {">>=", "<"}, {">=", "<=<"}} {
							for _, pr := range []string{a, b2, probe} {
								check("vers:"+j.scheme+"/"+m[0]+a+"|"+m[1]+b2, pr, "surplus-comparator-character")
							}
						}
					}
				}
			}
			for _, st := range []string{"*|" + parts[0], parts[0] + "|*", "*|*", "*" + parts[0], parts[0] + "*", ">=*", "* *"} {
				check("vers:"+j.scheme+"/"+st, probe, "star-misuse")
			}
			for _, bp := range []string{"", " ", "not-a-version", "*", "|", probe + "|", "\x00" + probe, probe + "\xff", "..", "vers:" + probe} {
				check(base, bp, "bad-probe")
			}
			// a probe that becomes a LISTED version when its blanks are removed (one blank inside the text of a constraint
			// version): the probe is validated as given, whatever the constraints say
			for x := 0; x < k; x++ {
				_, v := splitVersCons(parts[x])
				if len(v) < 2 {
					continue
				}
				at := 1 + r.IntN(len(v)-1)
				for _, bl := range []string{" ", "\t", "  "} {
					check(base, v[:at]+bl+v[at:], "probe-with-inner-blank")
					check("vers:"+j.scheme+"/="+v+"|="+probe, v[:at]+bl+v[at:], "probe-with-inner-blank")
					check("vers:"+j.scheme+"/!="+v+"|>="+probe, v[:at]+bl+v[at:], "probe-with-inner-blank")
				}
			}
			// a whole constraint slot (or the text next to a comparator) made only of characters that TrimSpace /
			// unicode.IsSpace treat as blank but that are not the ASCII space: two edits at once (a separator and the
			// character), which single-point corruption never produces
			for _, ws := range []string{"\t", "\n", "\v", "\f", "\r", "\u0085", "\u00a0", "\u3000", "\u2003", "\u2028", "\ufeff", "\x00", "\x7f", " \t ", "\u00a0\u00a0", "\r\n"} {
				body := strings.Join(parts, "|")
				check("vers:"+j.scheme+"/"+body+"|"+ws, probe, "blank-slot")
				check("vers:"+j.scheme+"/"+ws+"|"+body, probe, "blank-slot")
				if k >= 2 {
					check("vers:"+j.scheme+"/"+parts[0]+"|"+ws+"|"+strings.Join(parts[1:], "|"), probe, "blank-slot")
				}
				check("vers:"+j.scheme+"/"+body+ws, probe, "blank-affix")
				check("vers:"+j.scheme+"/"+ws+body, probe, "blank-affix")
				check("vers:"+ws+j.scheme+"/"+body, probe, "blank-affix")
				check(ws+"vers:"+j.scheme+"/"+body, probe, "blank-affix")
				check("vers:"+j.scheme+"/"+body, ws+probe, "blank-affix-probe")
				check("vers:"+j.scheme+"/"+body, probe+ws, "blank-affix-probe")
			}
			check("vers:"+j.scheme, probe, "truncate")
			check("vers:"+j.scheme+"/", probe, "truncate")
			check("vers:"+j.scheme+"/|", probe, "truncate")
			check("vers:/"+strings.Join(parts, "|"), probe, "truncate")
			check(j.scheme+"/"+strings.Join(parts, "|"), probe, "truncate")
			check("vers:"+j.scheme+"/"+versOps[r.IntN(6)], probe, "truncate")
		}
	})
	runC17Routing(c)
}

// runC17Routing searches for inputs on which the intended ecosystem and a rival disagree.
func runC17Routing(c *core.Ctx) {
	perScheme := c.Scale(400, 6000)
	c.Parallel(len(Schemes), func(w *core.W, i int) {
		scheme := Schemes[i]
		e := eco.ByName(SchemeEco[scheme])
		r := c.Rand("c17route", scheme)
		// candidate strings: own pool + pools of the other schemes' ecosystems + fixed discriminators
		cands := []string{"1.0~rc1", "1.0.0-alpha", "1:2.0", "1.0_p1", "v1.0.0", "1.0.0", "1.0", "1.10", "1.9", "1.0.0-rc.1", "1.0a1", "1.0.post1", "1.0-1", "1.0.0.0",
			"1.0.0-1", "1.0^git1", "1.0_rc1", "1.0-r1", "1.0.0+b", "2.0.0-beta", "1.0b", "1.0-sp", "1.0.rc1", "1.0-SNAPSHOT", "1.0.0-x", "0.9", "10", "1.0.dev1", "1.0+abc"}
		for _, s := range Schemes {
			o := eco.ByName(SchemeEco[s])
			p := BuildPool(o, r, 40, nil)
			for _, x := range p.Strs {
				if embeddable(x) {
					cands = append(cands, x)
				}
			}
		}
		var own []string
		ownV := map[string]eco.Ver{}
		for _, s := range cands {
			if v, err, pn := e.SafeNewVersion(s); pn == nil && err == nil && v != nil {
				if _, dup := ownV[s]; !dup {
					own = append(own, s)
					ownV[s] = v
				}
			}
		}
		rivals := map[string]*eco.Eco{}
		for _, s := range Schemes {
			if s != scheme {
				rivals[s] = eco.ByName(SchemeEco[s])
			}
		}
		reported := 0
		for k := 0; k < perScheme && len(own) > 2; k++ {
			a, b := own[r.IntN(len(own))], own[r.IntN(len(own))]
			mine, pn := eco.SafeCompare(ownV[a], ownV[b])
			if pn != nil {
				continue
			}
			// does any rival disagree (rejects one, or orders differently)?
			var disc []string
			for s, o := range rivals {
				va, e1, p1 := o.SafeNewVersion(a)
				vb, e2, p2 := o.SafeNewVersion(b)
				if p1 != nil || p2 != nil {
					continue
				}
				if e1 != nil || e2 != nil || va == nil || vb == nil {
					disc = append(disc, s)
					continue
				}
				if theirs, pn := eco.SafeCompare(va, vb); pn == nil && sgn(theirs) != sgn(mine) {
					disc = append(disc, s)
				}
			}
			if len(disc) == 0 {
				w.Count("route:not-discriminating", 1)
				continue
			}
			sortStrings(disc)
			for _, s := range disc {
				w.NT(core.Hash64("route", scheme, s))
				w.Count("route:discriminates:"+scheme+"-vs-"+s, 1)
			}
			for _, o := range []string{">=", "<", "=", "!=", ">", "<="} {
				// the SAME constraint text under the intended scheme and under the rivals that disagree, in a
				// PRNG order: each scheme must answer with its own ecosystem whatever was evaluated before
				body := o + a
				if r.IntN(2) == 0 {
					body += "|" + []string{"<", "<=", "!=", ">="}[r.IntN(4)] + b
				}
				order := append([]string{scheme}, disc...)
				if len(order) > 4 {
					order = order[:4]
				}
				r.Shuffle(len(order), func(x, y int) { order[x], order[y] = order[y], order[x] })
				for _, sc := range order {
					text := "vers:" + sc + "/" + body
					w.Count("evaluations", 1)
					for _, v := range evalC17(c, nil, "vers-route", []string{text, b, strings.Join(disc, ",")}) {
						if reported < 6 {
							reported++
							w.Report(v)
						}
					}
				}
			}
		}
	})
}
