package checks

import (
	"strconv"
	"strings"

	"verif/harness/core"
	"verif/harness/eco"
	"verif/harness/gen"
)

func init() {
	ck := &Check{
		ID: "C18",
		Rule: "per ecosystem: accepted version strings (clusters, prefix forms v / = / release-, upper-case qualifiers, alpine fallback strings) and accepted range strings of the full range grammar " +
			"(incl. internal spaces); oracles: TrimSpace(String()) == TrimSpace(input); re-parsing String() succeeds and compares equal (ranges: same Contains on every probe); padding with every " +
			"combination drawn from {space, tab, CR, LF} on either side changes neither acceptance (also for rejected inputs) nor any Compare against pool partners nor any Contains. " +
			"Non-trivial = distinct (ecosystem, input, padding pattern)",
		Assumptions: []string{"ASCII whitespace = space, tab, CR, LF"},
		MinEvals:    50000,
	}
	ck.Eval = evalC18
	ck.Run = func(c *core.Ctx) { runC18(c, ck) }
	register(ck)
}

var pads = []string{" ", "\t", "\n", "\r", "  ", " \t", "\r\n", "\n\n", " \t\r\n"}

func accepted(v any, err error, pn *eco.Panic) bool { return pn == nil && err == nil && v != nil }

// evalC18 ops: v-roundtrip [s]; v-pad [s, padded, partner]; r-roundtrip [r, probe]; r-pad [r, padded, probe].
func evalC18(c *core.Ctx, e *eco.Eco, op string, args []string) []core.Violation {
	if e == nil || len(args) == 0 {
		return nil
	}
	mk := func(rule, got, want string) []core.Violation {
		return []core.Violation{{Eco: e.Name, Op: op, Args: args, Rule: rule, Got: got, Want: want}}
	}
	switch op {
	case "v-roundtrip":
		s := args[0]
		v, err, pn := e.SafeNewVersion(s)
		if !accepted(isNilVer(v), err, pn) {
			return nil
		}
		str, pn := eco.SafeVString(v)
		if pn != nil {
			return mk("panic", pn.Value, "")
		}
		if strings.TrimSpace(str) != strings.TrimSpace(s) {
			return mk("string-differs", quote(str), quote(s))
		}
		v2, err, pn := e.SafeNewVersion(str)
		if !accepted(isNilVer(v2), err, pn) {
			return mk("reparse-fails", errStr(err), "accepted")
		}
		if cv, pn := eco.SafeCompare(v, v2); pn != nil || cv != 0 {
			return mk("reparse-not-equal", itoa(cv), "0")
		}
		if cv, pn := eco.SafeCompare(v2, v); pn != nil || cv != 0 {
			return mk("reparse-not-equal", itoa(cv), "0")
		}
	case "v-pad":
		if len(args) < 3 {
			return nil
		}
		s, padded, partner := args[0], args[1], args[2]
		v, err, pn := e.SafeNewVersion(s)
		v2, err2, pn2 := e.SafeNewVersion(padded)
		if pn != nil || pn2 != nil {
			return nil
		}
		a1, a2 := accepted(isNilVer(v), err, nil), accepted(isNilVer(v2), err2, nil)
		if a1 != a2 {
			return mk("acceptance-changes", b2s(a2), b2s(a1))
		}
		if !a1 {
			return nil
		}
		p, err, pn := e.SafeNewVersion(partner)
		if !accepted(isNilVer(p), err, pn) {
			return nil
		}
		c1, p1 := eco.SafeCompare(v, p)
		c2, p2 := eco.SafeCompare(v2, p)
		d1, p3 := eco.SafeCompare(p, v)
		d2, p4 := eco.SafeCompare(p, v2)
		if p1 != nil || p2 != nil || p3 != nil || p4 != nil {
			return nil
		}
		if c1 != c2 || d1 != d2 {
			return mk("compare-changes", itoa(c2)+"/"+itoa(d2), itoa(c1)+"/"+itoa(d1))
		}
		if cv, pn := eco.SafeCompare(v, v2); pn == nil && cv != 0 {
			return mk("padded-not-equal-to-unpadded", itoa(cv), "0")
		}
		if str, pn := eco.SafeVString(v2); pn == nil && strings.TrimSpace(str) != strings.TrimSpace(s) {
			return mk("string-differs", quote(str), quote(s))
		}
	case "r-roundtrip":
		if len(args) < 2 {
			return nil
		}
		rs, probe := args[0], args[1]
		r, err, pn := e.SafeNewRange(rs)
		if !accepted(isNilRng(r), err, pn) {
			return nil
		}
		str, pn := eco.SafeRString(r)
		if pn != nil {
			return mk("panic", pn.Value, "")
		}
		if strings.TrimSpace(str) != strings.TrimSpace(rs) {
			return mk("string-differs", quote(str), quote(rs))
		}
		r2, err, pn := e.SafeNewRange(str)
		if !accepted(isNilRng(r2), err, pn) {
			return mk("reparse-fails", errStr(err), "accepted")
		}
		pv, err, pn := e.SafeNewVersion(probe)
		if !accepted(isNilVer(pv), err, pn) {
			return nil
		}
		g1, p1 := eco.SafeContains(r, pv)
		g2, p2 := eco.SafeContains(r2, pv)
		if p1 == nil && p2 == nil && g1 != g2 {
			return mk("reparse-contains-differs", b2s(g2), b2s(g1))
		}
	case "r-pad":
		if len(args) < 3 {
			return nil
		}
		rs, padded, probe := args[0], args[1], args[2]
		r, err, pn := e.SafeNewRange(rs)
		r2, err2, pn2 := e.SafeNewRange(padded)
		if pn != nil || pn2 != nil {
			return nil
		}
		a1, a2 := accepted(isNilRng(r), err, nil), accepted(isNilRng(r2), err2, nil)
		if a1 != a2 {
			return mk("acceptance-changes", b2s(a2), b2s(a1))
		}
		if !a1 {
			return nil
		}
		pv, err, pn := e.SafeNewVersion(probe)
		if !accepted(isNilVer(pv), err, pn) {
			return nil
		}
		g1, p1 := eco.SafeContains(r, pv)
		g2, p2 := eco.SafeContains(r2, pv)
		if p1 == nil && p2 == nil && g1 != g2 {
			return mk("contains-changes", b2s(g2), b2s(g1))
		}
		if str, pn := eco.SafeRString(r2); pn == nil && strings.TrimSpace(str) != strings.TrimSpace(rs) {
			return mk("string-differs", quote(str), quote(rs))
		}
		// padded probe against the unpadded range
		for _, pd := range []string{" " + probe, probe + "\n", "\t" + probe + " "} {
			pv2, err, pn := e.SafeNewVersion(pd)
			if !accepted(isNilVer(pv2), err, pn) {
				return []core.Violation{{Eco: e.Name, Op: "v-pad", Args: []string{probe, pd, probe}, Rule: "acceptance-changes", Got: "false", Want: "true"}}
			}
			if g3, p3 := eco.SafeContains(r, pv2); p3 == nil && p1 == nil && g3 != g1 {
				return mk("contains-changes-with-padded-probe", b2s(g3), b2s(g1))
			}
		}
	}
	return nil
}

func isNilVer(v eco.Ver) any {
	if v == nil {
		return nil
	}
	return v
}
func isNilRng(r eco.Rng) any {
	if r == nil {
		return nil
	}
	return r
}
func quote(s string) string {
	return "\"" + strings.NewReplacer("\n", `\n`, "\t", `\t`, "\r", `\r`).Replace(s) + "\""
}

func runC18(c *core.Ctx, ck *Check) {
	evalWitnesses(c, ck)
	rounds := c.Scale(8, 400)
	type job struct {
		e *eco.Eco
		k int
	}
	var jobs []job
	for _, e := range eco.All() {
		for k := 0; k < rounds; k++ {
			jobs = append(jobs, job{e, k})
		}
	}
	c.Parallel(len(jobs), func(w *core.W, i int) {
		j := jobs[i]
		e := j.e
		r := c.Rand("c18", e.Name, itoa(j.k))
		p := BuildPool(e, r, 130, w)
		if len(p.Strs) < 6 {
			return
		}
		reported := map[string]int{}
		rep := func(vs []core.Violation) {
			for _, v := range vs {
				if reported[v.Op+v.Rule] < 3 {
					reported[v.Op+v.Rule]++
					w.Report(v)
				}
			}
		}
		pad := func(s string) (string, string) {
			l, t := "", ""
			switch r.IntN(3) {
			case 0:
				l = pads[r.IntN(len(pads))]
			case 1:
				t = pads[r.IntN(len(pads))]
			default:
				l, t = pads[r.IntN(len(pads))], pads[r.IntN(len(pads))]
			}
			return l + s + t, quote(l) + "|" + quote(t)
		}
		// versions (and some rejected strings: acceptance must not change either way)
		cands := append([]string{}, p.Strs...)
		for k := 0; k < 30; k++ {
			cands = append(cands, gen.Hostile(p.Strs[r.IntN(len(p.Strs))], r))
		}
		if j.k < 2 {
			// directed length sweep: for EVERY number literal n of this ecosystem's sources (k = 0) / of the whole tree
			// (k = 1) with 12 <= n <= 1100, spellings of exactly n-2 .. n+1 bytes: a length guard, buffer size or
			// fast-path threshold measured on the untrimmed text changes acceptance of exactly these under padding
			pkg := e.Name
			if j.k == 1 {
				pkg = ""
			}
			var short []string
			for _, s := range p.Strs {
				if len(s) <= 10 && strings.TrimSpace(s) == s {
					short = append(short, s)
				}
			}
			lens := map[int]bool{}
			for _, ns := range gen.PkgNums(pkg) {
				if n, err := strconv.Atoi(ns); err == nil && n >= 12 && n <= 1100 {
					lens[n-2], lens[n-1], lens[n], lens[n+1] = true, true, true, true
				}
			}
			var ll []int
			for l := range lens {
				ll = append(ll, l)
			}
			sortInts(ll)
			if len(ll) > 400 {
				r.Shuffle(len(ll), func(a, b int) { ll[a], ll[b] = ll[b], ll[a] })
				ll = ll[:400]
			}
			for _, l := range ll {
				if len(short) == 0 {
					break
				}
				for _, s := range gen.OfLength(short[r.IntN(len(short))], l) {
					if v, err, pn := e.SafeNewVersion(s); pn == nil && err == nil && v != nil {
						cands = append(cands, s)
						w.Count("length_sweep_accepted_spellings", 1)
					}
				}
			}
			w.Count("length_sweep_lengths", int64(len(ll)))
		}
		for _, s := range cands {
			if strings.TrimSpace(s) != s {
				continue
			}
			w.Count("evaluations", 1)
			rep(evalC18(c, e, "v-roundtrip", []string{s}))
			for k := 0; k < 4; k++ {
				ps, pat := pad(s)
				partner := p.Strs[r.IntN(len(p.Strs))]
				w.Count("evaluations", 1)
				w.Count("events:padded-version", 1)
				w.NT(core.Hash64(e.Name, "v", s, pat))
				rep(evalC18(c, e, "v-pad", []string{s, ps, partner}))
			}
		}
		// ranges (the first pool also gets the fixed spelling-sensitive vectors shared with C20)
		var fixedR, fixedV []string
		if j.k == 0 {
			if vec, ok := c20Vectors[e.Name]; ok {
				fixedR, fixedV = vec[0], vec[1]
			}
		}
		for k := 0; k < c.Scale(150, 300)+len(fixedR); k++ {
			var rs string
			if k < len(fixedR) {
				rs = fixedR[k]
				for _, fv := range fixedV {
					w.Count("evaluations", 1)
					ps, _ := pad(rs)
					rep(evalC18(c, e, "r-pad", []string{rs, ps, fv}))
				}
			} else {
				rs = gen.RangeOne(e.Name, r)
			}
			var symProbe string
			if k >= len(fixedR) && k%3 == 2 {
				// operator / marker literals of the ecosystem's own sources around a pool member cut to a shorter precision
				// (prefix and wildcard forms); the uncut member is one of the probes
				symProbe = p.Strs[r.IntN(len(p.Strs))]
				rs = gen.SymRange(e.Name, r, func() string {
					if i := strings.LastIndexAny(symProbe, ".-_"); i > 0 && r.IntN(3) > 0 {
						return symProbe[:i]
					}
					return symProbe
				})
			}
			if r.IntN(12) == 0 {
				rs = gen.Hostile(rs, r)
			}
			if strings.TrimSpace(rs) != rs {
				continue
			}
			rg, err, pn := e.SafeNewRange(rs)
			okR := accepted(isNilRng(rg), err, pn)
			if okR {
				w.Count("accepted:range", 1)
			} else {
				w.Count("rejected:range", 1)
			}
			// probes: pool members and every version-like token of the range text itself (probes that sit
			// exactly on a bound, textually: identity operators and equality paths)
			probes := []string{}
			if symProbe != "" {
				probes = append(probes, symProbe)
			}
			for x := 0; x < 6; x++ {
				probes = append(probes, p.Strs[r.IntN(len(p.Strs))])
			}
			for _, tok := range strings.FieldsFunc(rs, func(c rune) bool { return strings.ContainsRune(" ,|<>=!~^()[]@*", c) }) {
				if v, err, pn := e.SafeNewVersion(tok); accepted(isNilVer(v), err, pn) {
					probes = append(probes, tok)
				}
			}
			for _, probe := range probes {
				w.Count("evaluations", 2)
				rep(evalC18(c, e, "r-roundtrip", []string{rs, probe}))
				ps, pat := pad(rs)
				w.NT(core.Hash64(e.Name, "r", rs, pat))
				w.Count("events:padded-range", 1)
				rep(evalC18(c, e, "r-pad", []string{rs, ps, probe}))
			}
			if k == 0 {
				w.Sample(map[string]any{"eco": e.Name, "range": rs, "accepted": okR, "version": p.Strs[0]})
			}
		}
	})
}
