package checks

import (
	"bufio"
	"encoding/json"
	"fmt"
	"hash/fnv"
	"math/rand/v2"
	"os"
	"os/exec"
	"path/filepath"
	"reflect"
	"regexp"
	"runtime"
	"sort"
	"strconv"
	"strings"
	"sync"
	"sync/atomic"
	"time"

	"verif/harness/core"
	"verif/harness/eco"
	"verif/harness/gen"
)

// C19: purity and concurrency safety. Three monitors:
//  - race monitor: a -race build of this binary runs barrier-released goroutine storms on SHARED
//    versions / ranges / ecosystem values; DATA RACE reports are counted and de-duplicated;
//  - differential monitor: results under concurrency vs a sequential run on separate copies;
//    the same operation multiset in shuffled orders and in a fresh process (history independence);
//  - purity monitor: deep reflect fingerprint of every receiver / argument / ecosystem value
//    before and after each call.

func init() {
	ck := &Check{
		ID: "C19",
		Rule: "race build (go build -race), per ecosystem and for vers: rounds in which the main goroutine builds fresh shared values (64 versions, 32 ranges, one ecosystem value), closes a barrier channel, and " +
			"G in {4,16,64} goroutines at GOMAXPROCS in {2,4,16} run PRNG-determined sequences of Compare/Contains/String/NewVersion/NewVersionRange/vers.Contains on the SHARED values with Gosched at PRNG points; " +
			"a second variant hands values built by one goroutine to others over a channel; oracles: zero DATA RACE reports / runtime fatal errors, every concurrent result equals the sequential result on separate copies, " +
			"deep reflect fingerprints of shared values unchanged by any call, identical per-operation results for 8 shuffled orders of one operation multiset and for a fresh process. " +
			"Non-trivial = distinct (ecosystem, operation kind, shared object) touched by >= 2 goroutines in one round",
		Assumptions: []string{"Go race detector (happens-before based): covers conflicting accesses the workload executes", "reflect can read unexported fields for fingerprinting"},
		MinEvals:    100000,
	}
	ck.Eval = evalC19
	ck.Run = func(c *core.Ctx) { runC19(c, ck) }
	register(ck)
	C19Child = c19Child
}

// ---------------------------------------------------------------------------------------------
// fingerprint

func fingerprint(x any) uint64 {
	h := fnv.New64a()
	seen := map[uintptr]bool{}
	var walk func(v reflect.Value, depth int)
	wr := func(s string) { h.Write([]byte(s)); h.Write([]byte{0}) }
	walk = func(v reflect.Value, depth int) {
		if depth > 12 || !v.IsValid() {
			wr("~")
			return
		}
		switch v.Kind() {
		case reflect.Bool:
			wr(strconv.FormatBool(v.Bool()))
		case reflect.Int, reflect.Int8, reflect.Int16, reflect.Int32, reflect.Int64:
			wr(strconv.FormatInt(v.Int(), 10))
		case reflect.Uint, reflect.Uint8, reflect.Uint16, reflect.Uint32, reflect.Uint64, reflect.Uintptr:
			wr(strconv.FormatUint(v.Uint(), 10))
		case reflect.Float32, reflect.Float64:
			wr(strconv.FormatFloat(v.Float(), 'g', -1, 64))
		case reflect.String:
			wr("s" + v.String())
		case reflect.Slice:
			if v.IsNil() {
				wr("nilslice")
				return
			}
			wr("[" + strconv.Itoa(v.Len()))
			for i := 0; i < v.Len(); i++ {
				walk(v.Index(i), depth+1)
			}
		case reflect.Array:
			for i := 0; i < v.Len(); i++ {
				walk(v.Index(i), depth+1)
			}
		case reflect.Map:
			if v.IsNil() {
				wr("nilmap")
				return
			}
			keys := v.MapKeys()
			ks := make([]string, len(keys))
			for i, k := range keys {
				ks[i] = fmt.Sprint(k)
			}
			sort.Strings(ks)
			wr("{" + strings.Join(ks, ","))
			wr(strconv.Itoa(v.Len()))
		case reflect.Ptr:
			if v.IsNil() {
				wr("nilptr")
				return
			}
			if seen[v.Pointer()] {
				wr("cycle")
				return
			}
			seen[v.Pointer()] = true
			walk(v.Elem(), depth+1)
		case reflect.Interface:
			if v.IsNil() {
				wr("nilif")
				return
			}
			wr(v.Elem().Type().String())
			walk(v.Elem(), depth+1)
		case reflect.Struct:
			wr(v.Type().String())
			for i := 0; i < v.NumField(); i++ {
				walk(v.Field(i), depth+1)
			}
		default:
			wr(v.Kind().String())
		}
	}
	walk(reflect.ValueOf(x), 0)
	return h.Sum64()
}

// ---------------------------------------------------------------------------------------------
// operation model

type opSpec struct {
	Kind int // 0 Compare 1 Contains 2 VString 3 RString 4 NewVersion 5 NewRange 6 VersContains
	A, B int
}

var opNames = []string{"Compare", "Contains", "VString", "RString", "NewVersion", "NewVersionRange", "VersContains"}

type shared struct {
	e      *eco.Eco
	vstr   []string
	rstr   []string
	vers   []eco.Ver
	rngs   []eco.Rng
	vtexts []string // vers range texts (only for schemes)
}

func buildShared(name string, r *rand.Rand, nv, nr int) *shared {
	e := eco.ByName(name)
	s := &shared{e: e}
	seen := map[string]bool{}
	for tries := 0; len(s.vstr) < nv && tries < nv*30; tries++ {
		var cand []string
		if r.IntN(2) == 0 {
			cand = gen.Cluster(name, r)
		} else {
			cand = []string{gen.One(name, r)}
		}
		for _, x := range cand {
			if len(s.vstr) >= nv || seen[x] {
				continue
			}
			if v, err, pn := e.SafeNewVersion(x); accepted(isNilVer(v), err, pn) {
				seen[x] = true
				s.vstr = append(s.vstr, x)
			}
		}
	}
	for tries := 0; len(s.rstr) < nr && tries < nr*30; tries++ {
		x := gen.RangeOne(name, r)
		switch tries % 4 {
		case 2:
			// the bound is one of the shared versions (or a less precise prefix of it) under an operator spelling taken
			// from the ecosystem's own source literals, so that operators this table does not list are exercised too
			x = gen.SymRange(name, r, func() string { return boundFrom(s.vstr, r) })
		case 3:
			if len(s.vstr) > 0 && len(CmpTable[name].ops) > 0 {
				var ops []string
				for o := range CmpTable[name].ops {
					ops = append(ops, o)
				}
				sortStrings(ops)
				x = ops[r.IntN(len(ops))] + boundFrom(s.vstr, r)
				if CmpTable[name].listOnly {
					x += ","
				}
			}
		}
		if rg, err, pn := e.SafeNewRange(x); accepted(isNilRng(rg), err, pn) {
			s.rstr = append(s.rstr, x)
		}
	}
	// shorthand / interval ranges anchored on the shared versions (so probes fall inside, outside and on the bounds), and
	// for maven multi-set ranges whose sets are shared versions (each probe sits in another alternative)
	if len(s.vstr) > 6 {
		ap := &Pool{Eco: e, Strs: s.vstr}
		for k := 0; k < 24 && len(s.rstr) < nr+10; k++ {
			x := anchoredRange(name, ap, r)
			if name == "maven" && k%3 == 0 {
				var sets []string
				for n := 3 + r.IntN(3); n > 0; n-- {
					if v := s.vstr[r.IntN(len(s.vstr))]; !strings.ContainsAny(v, ",[]() ") {
						sets = append(sets, "["+v+"]")
					}
				}
				if len(sets) >= 3 {
					x = strings.Join(sets, ",")
				}
			}
			if rg, err, pn := e.SafeNewRange(x); accepted(isNilRng(rg), err, pn) {
				s.rstr = append(s.rstr, x)
			}
		}
	}
	for sc, en := range SchemeEco {
		if en == name && len(s.vstr) > 4 {
			for k := 0; k < 8; k++ {
				var parts []string
				for n := 1 + r.IntN(3); n > 0; n-- {
					v := s.vstr[r.IntN(len(s.vstr))]
					if embeddable(v) {
						parts = append(parts, versOps[r.IntN(6)]+v)
					}
				}
				if len(parts) > 0 {
					s.vtexts = append(s.vtexts, "vers:"+sc+"/"+strings.Join(parts, "|"))
					if len(parts) >= 2 {
						// the same constraints with one of them repeated and two more neighbours: de-duplication and sorting
						// must be deterministic (map iteration order, unstable sorts on an order that is not transitive)
						q := append(append([]string{}, parts...), parts[r.IntN(len(parts))])
						for x := 0; x < 2; x++ {
							if v := s.vstr[r.IntN(len(s.vstr))]; embeddable(v) {
								q = append(q, versOps[r.IntN(6)]+v)
							}
						}
						s.vtexts = append(s.vtexts, "vers:"+sc+"/"+strings.Join(q, "|"))
					}
				}
			}
		}
	}
	if name == "maven" && len(s.vstr) > 4 {
		// bounds that form one of ComparableVersion's own comparison cycles (X.w-N < X-beta-N < X < X.w-N), one constraint
		// repeated: whatever order the implementation sorts them into, it must be the same order on every call
		for k := 0; k < 6; k++ {
			x := pickPlain(s.vstr, r)
			for _, q := range [][]string{{">=" + x + "-beta-1", "<" + x, ">=" + x + ".jre-7", ">=" + x + "-beta-1"}, {"<" + x + ".bar.12", ">=" + x + "-alpha-1", "<=" + x, "<" + x + ".bar.12", "!=" + x + "-sp"},
				{">=" + x + "-sp", "<" + x + "-Final-SNAPSHOT", ">" + x, ">=" + x + "-sp"}} {
				s.vtexts = append(s.vtexts, "vers:maven/"+strings.Join(q, "|"))
			}
		}
	}
	sort.Strings(s.vtexts)
	return s
}

// pickPlain returns the dotted-numeric prefix of one of the strings (or "9.4").
func pickPlain(vs []string, r *rand.Rand) string {
	for t := 0; t < 20; t++ {
		v := vs[r.IntN(len(vs))]
		j := 0
		for j < len(v) && (v[j] >= '0' && v[j] <= '9' || v[j] == '.') {
			j++
		}
		if p := strings.Trim(v[:j], "."); p != "" && len(p) < 12 {
			return p
		}
	}
	return "9.4"
}

// observableDifference compares what callers can see of one shared object with a fresh parse of its text: String(),
// Compare against every shared version (both operand positions), membership in every shared range (for a range:
// membership of every shared version). "" = no difference.
func (s *shared) observableDifference(kind string, idx int) (diff string) {
	defer func() {
		if p := recover(); p != nil {
			diff = fmt.Sprint("panic: ", p)
		}
	}()
	fe := eco.ByName(s.e.Name)
	switch kind {
	case "version":
		f, err, pn := fe.SafeNewVersion(s.vstr[idx])
		if pn != nil || err != nil || f == nil {
			return "its text is no longer accepted"
		}
		v := s.vers[idx]
		if v.String() != f.String() {
			return "String() = " + quote(v.String()) + ", fresh parse prints " + quote(f.String())
		}
		if a, b := v.Compare(f), f.Compare(v); a != 0 || b != 0 {
			return "Compare(object, fresh parse of its text) = " + itoa(a)
		}
		for i, o := range s.vers {
			if i == idx {
				continue
			}
			if a, b := v.Compare(o), f.Compare(o); a != b {
				return "Compare with " + quote(s.vstr[i]) + " = " + itoa(a) + ", fresh parse gives " + itoa(b)
			}
			if a, b := o.Compare(v), o.Compare(f); a != b {
				return "Compare of " + quote(s.vstr[i]) + " with it = " + itoa(a) + ", with a fresh parse " + itoa(b)
			}
		}
		for i, rg := range s.rngs {
			if a, b := rg.Contains(v), rg.Contains(f); a != b {
				return "range " + quote(s.rstr[i]) + " contains it = " + b2s(a) + ", a fresh parse = " + b2s(b)
			}
		}
	case "range":
		f, err, pn := fe.SafeNewRange(s.rstr[idx])
		if pn != nil || err != nil || f == nil {
			return "its text is no longer accepted"
		}
		rg := s.rngs[idx]
		if rg.String() != f.String() {
			return "String() = " + quote(rg.String()) + ", fresh parse prints " + quote(f.String())
		}
		for i, v := range s.vers {
			if a, b := rg.Contains(v), f.Contains(v); a != b {
				return "contains " + quote(s.vstr[i]) + " = " + b2s(a) + ", fresh parse of the range = " + b2s(b)
			}
		}
	default:
		for i, x := range s.vstr {
			a, _, _ := s.e.SafeNewVersion(x)
			b, _, _ := fe.SafeNewVersion(x)
			if (a == nil) != (b == nil) || a != nil && (a.String() != b.String() || a.Compare(s.vers[i]) != 0) {
				return "NewVersion(" + quote(x) + ") differs from a fresh ecosystem value"
			}
		}
		for _, x := range s.rstr {
			a, _, _ := s.e.SafeNewRange(x)
			b, _, _ := fe.SafeNewRange(x)
			if (a == nil) != (b == nil) || a != nil && a.String() != b.String() {
				return "NewVersionRange(" + quote(x) + ") differs from a fresh ecosystem value"
			}
		}
	}
	return ""
}

// boundFrom returns one of the strings, half of the time cut at its last '.' or '-' (a less precise bound).
func boundFrom(vs []string, r *rand.Rand) string {
	if len(vs) == 0 {
		return "1.0"
	}
	v := vs[r.IntN(len(vs))]
	if r.IntN(2) == 0 {
		if i := strings.LastIndexAny(v, ".-"); i > 0 {
			return v[:i]
		}
	}
	return v
}

// materialise parses fresh objects from the strings (a fresh ecosystem value too).
func (s *shared) materialise() *shared {
	t := &shared{e: eco.ByName(s.e.Name), vstr: s.vstr, rstr: s.rstr, vtexts: s.vtexts}
	for _, x := range s.vstr {
		v, _, _ := t.e.SafeNewVersion(x)
		t.vers = append(t.vers, v)
	}
	for _, x := range s.rstr {
		rg, _, _ := t.e.SafeNewRange(x)
		t.rngs = append(t.rngs, rg)
	}
	return t
}

func (s *shared) randOp(r *rand.Rand) opSpec {
	nv, nr := len(s.vers), len(s.rngs)
	for {
		switch k := r.IntN(7); k {
		case 0:
			return opSpec{0, r.IntN(nv), r.IntN(nv)}
		case 1:
			if nr > 0 {
				return opSpec{1, r.IntN(nr), r.IntN(nv)}
			}
		case 2:
			return opSpec{2, r.IntN(nv), 0}
		case 3:
			if nr > 0 {
				return opSpec{3, r.IntN(nr), 0}
			}
		case 4:
			return opSpec{4, r.IntN(nv), 0}
		case 5:
			if nr > 0 {
				return opSpec{5, r.IntN(nr), 0}
			}
		case 6:
			if len(s.vtexts) > 0 {
				return opSpec{6, r.IntN(len(s.vtexts)), r.IntN(nv)}
			}
		}
	}
}

// exec runs one operation on the shared objects and returns a result digest.
func (s *shared) exec(o opSpec) string {
	defer func() { recover() }()
	switch o.Kind {
	case 0:
		return strconv.Itoa(s.vers[o.A].Compare(s.vers[o.B]))
	case 1:
		return strconv.FormatBool(s.rngs[o.A].Contains(s.vers[o.B]))
	case 2:
		return s.vers[o.A].String()
	case 3:
		return s.rngs[o.A].String()
	case 4:
		v, err := s.e.NewVersion(s.vstr[o.A])
		if err != nil || v == nil {
			return "err"
		}
		return "v:" + v.String() + ":" + strconv.Itoa(v.Compare(s.vers[o.A]))
	case 5:
		rg, err := s.e.NewRange(s.rstr[o.A])
		if err != nil || rg == nil {
			return "err"
		}
		return "r:" + rg.String() + ":" + strconv.FormatBool(rg.Contains(s.vers[0]))
	case 6:
		ok, err, _ := eco.SafeVersContains(s.vtexts[o.A], s.vstr[o.B])
		return strconv.FormatBool(ok) + ":" + strconv.FormatBool(err == nil)
	}
	return "?"
}

// ---------------------------------------------------------------------------------------------
// race child

type raceResult struct {
	Ops           int64            `json:"ops"`
	Rounds        int              `json:"rounds"`
	Mismatches    []core.Violation `json:"mismatches"`
	SharedTouched int64            `json:"shared_objects_touched_by_2plus_goroutines"`
	OverlapPairs  int64            `json:"overlapping_op_pairs"`
	NTKeys        []uint64         `json:"nt_keys"`
	ByOp          map[string]int64 `json:"by_op"`
	Done          bool             `json:"done"`
}

type stamp struct {
	obj        int32
	start, end int64
}

// c19Child: verifmon C19 --child race <tier> <seed> <out> | history <seed> <out>
func c19Child(args []string) int {
	switch args[0] {
	case "race":
		return raceChild(args[1], args[2], args[3])
	case "cold":
		return coldChild(args[1], args[2], args[3])
	case "history":
		seed, _ := strconv.ParseUint(args[1], 10, 64)
		res := historyDigests(seed, 1, 1) // a fresh process starts with a DIFFERENT order than the parent
		b, _ := json.Marshal(res[0])
		os.WriteFile(args[2], b, 0o644)
		return 0
	}
	return 2
}

// coldChild: the FIRST calls this process ever makes into one ecosystem package (and into vers) are made by 8
// goroutines at once - nothing is parsed beforehand, the candidate strings come straight from the generators. Lazy
// initialisation on first use (package-level tables, compiled patterns, sync-free "if x == nil { x = ... }") is
// exercised only here: any earlier sequential call, even the harness building its shared values, closes the window.
func coldChild(name, seedS, out string) int {
	seed, _ := strconv.ParseUint(seedS, 10, 64)
	r := core.Rand(seed, "C19", "cold", name)
	res := &raceResult{ByOp: map[string]int64{}}
	var vs, rs, vt []string
	for len(vs) < 160 {
		if r.IntN(2) == 0 {
			vs = append(vs, gen.Cluster(name, r)...)
		} else {
			vs = append(vs, gen.One(name, r))
		}
	}
	vs = vs[:160]
	for len(rs) < 48 {
		rs = append(rs, gen.RangeOne(name, r))
	}
	for sc, en := range SchemeEco {
		if en == name {
			for k := 0; k < 24; k++ {
				a, b := vs[r.IntN(len(vs))], vs[r.IntN(len(vs))]
				if embeddable(a) && embeddable(b) {
					vt = append(vt, "vers:"+sc+"/"+versOps[r.IntN(6)]+a+"|"+versOps[r.IntN(6)]+b)
				}
			}
		}
	}
	sort.Strings(vt)
	e := eco.ByName(name)
	type rec struct{ key, val string }
	const G = 8
	run := func(g int, e *eco.Eco) []rec {
		var out []rec
		do := func(key string, f func() string) {
			defer func() {
				if p := recover(); p != nil {
					out = append(out, rec{key, fmt.Sprint("panic: ", p)})
				}
			}()
			out = append(out, rec{key, f()})
		}
		var prev eco.Ver
		for i, s := range vs {
			if i >= 8 && i%G != g { // the first 8 candidates are everybody's, the rest is split
				continue
			}
			s := s
			do("NewVersion|"+s, func() string {
				v, err := e.NewVersion(s)
				if err != nil || v == nil {
					return "rejected"
				}
				st := v.String()
				if prev != nil {
					st += "|" + strconv.Itoa(v.Compare(prev))
				}
				prev = v
				return st
			})
		}
		for i, s := range rs {
			if i >= 4 && i%G != g {
				continue
			}
			s := s
			do("Range|"+s, func() string {
				rg, err := e.NewRange(s)
				if err != nil || rg == nil {
					return "rejected"
				}
				st := rg.String()
				if prev != nil {
					st += "|" + strconv.FormatBool(rg.Contains(prev))
				}
				return st
			})
		}
		for i, s := range vt {
			if i >= 4 && i%G != g {
				continue
			}
			s := s
			do("Vers|"+s, func() string {
				ok, err, pn := eco.SafeVersContains(s, vs[i%len(vs)])
				if pn != nil {
					return "panic: " + pn.Value
				}
				return strconv.FormatBool(ok) + ":" + strconv.FormatBool(err == nil)
			})
		}
		return out
	}
	results := make([][]rec, G)
	barrier := make(chan struct{})
	var wg sync.WaitGroup
	for g := 0; g < G; g++ {
		wg.Add(1)
		go func(g int) {
			defer wg.Done()
			<-barrier
			results[g] = run(g, e)
		}(g)
	}
	close(barrier)
	wg.Wait()
	// sequential reference (the process is warm now)
	for g := 0; g < G; g++ {
		want := run(g, eco.ByName(name))
		for k := range want {
			res.Ops++
			res.ByOp["cold:"+strings.SplitN(want[k].key, "|", 2)[0]]++
			if k < len(results[g]) && results[g][k].val != want[k].val && len(res.Mismatches) < 10 {
				res.Mismatches = append(res.Mismatches, core.Violation{Eco: name, Op: "cold-start", Args: []string{want[k].key}, Rule: "result-differs-when-first-calls-are-concurrent", Got: results[g][k].val, Want: want[k].val})
			}
		}
	}
	res.Rounds, res.Done = 1, true
	b, _ := json.Marshal(res)
	os.WriteFile(out, b, 0o644)
	return 0
}

func raceChild(tier, seedS, out string) int {
	seed, _ := strconv.ParseUint(seedS, 10, 64)
	rounds := 10
	opsPerG := 250
	if tier == "thorough" {
		rounds, opsPerG = 120, 500
	}
	if v := os.Getenv("VERIF_C19_ROUNDS"); v != "" {
		rounds, _ = strconv.Atoi(v)
	}
	only := os.Getenv("VERIF_C19_ECO")
	res := &raceResult{ByOp: map[string]int64{}}
	ntSeen := map[uint64]bool{}
	gs := []int{4, 16, 64}
	mps := []int{2, 4, 16}
	t0 := time.Now()
	for _, name := range eco.Names() {
		if only != "" && only != name {
			continue
		}
		for rd := 0; rd < rounds; rd++ {
			r := core.Rand(seed, "C19", "race", name, itoa(rd))
			G := gs[rd%3]
			runtime.GOMAXPROCS(mps[(rd/3)%3])
			spec := buildShared(name, r, 64, 32)
			if len(spec.vstr) < 4 {
				continue
			}
			// the shared objects are built by the main goroutine, or (variant) by a builder goroutine
			// that hands them over a channel
			var sh *shared
			if rd%2 == 1 {
				ch := make(chan *shared)
				go func() { ch <- spec.materialise() }()
				sh = <-ch
			} else {
				sh = spec.materialise()
			}
			plans := make([][]opSpec, G)
			yields := make([][]bool, G)
			for g := range plans {
				pr := core.Rand(seed, "C19", "plan", name, itoa(rd), itoa(g))
				plans[g] = make([]opSpec, opsPerG)
				yields[g] = make([]bool, opsPerG)
				for k := range plans[g] {
					plans[g][k] = sh.randOp(pr)
					yields[g][k] = pr.IntN(5) == 0
				}
			}
			results := make([][]string, G)
			stamps := make([][]stamp, G)
			barrier := make(chan struct{})
			var wg sync.WaitGroup
			for g := 0; g < G; g++ {
				wg.Add(1)
				go func(g int) {
					defer wg.Done()
					resG := make([]string, opsPerG)
					stG := make([]stamp, 0, opsPerG)
					<-barrier
					for k, o := range plans[g] {
						s0 := time.Since(t0).Nanoseconds()
						resG[k] = sh.exec(o)
						s1 := time.Since(t0).Nanoseconds()
						obj := int32(o.A)
						if o.Kind == 1 || o.Kind == 3 || o.Kind == 5 {
							obj += 1000
						}
						stG = append(stG, stamp{obj, s0, s1})
						if yields[g][k] {
							runtime.Gosched()
						}
					}
					results[g], stamps[g] = resG, stG
				}(g)
			}
			close(barrier)
			wg.Wait()
			// sequential reference on separate copies
			seq := spec.materialise()
			for g := 0; g < G; g++ {
				for k, o := range plans[g] {
					res.Ops++
					res.ByOp[opNames[o.Kind]]++
					if want := seq.exec(o); want != results[g][k] && len(res.Mismatches) < 20 {
						res.Mismatches = append(res.Mismatches, core.Violation{Eco: name, Op: "concurrent-vs-sequential", Args: []string{opNames[o.Kind], argText(spec, o, 0), argText(spec, o, 1)},
							Rule: "result-differs-under-concurrency", Got: results[g][k], Want: want})
					}
				}
			}
			// which shared objects were touched by >= 2 goroutines; overlapping pairs
			touched := map[int32]map[int]bool{}
			byObj := map[int32][]stamp{}
			for g := 0; g < G; g++ {
				for _, st := range stamps[g] {
					if touched[st.obj] == nil {
						touched[st.obj] = map[int]bool{}
					}
					touched[st.obj][g] = true
					byObj[st.obj] = append(byObj[st.obj], st)
				}
			}
			for obj, gsT := range touched {
				if len(gsT) >= 2 {
					res.SharedTouched++
					k := core.Hash64(name, itoa(int(obj)), itoa(rd%7))
					if !ntSeen[k] && len(res.NTKeys) < 200000 {
						ntSeen[k] = true
						res.NTKeys = append(res.NTKeys, k)
					}
				}
			}
			for _, ss := range byObj {
				sort.Slice(ss, func(a, b int) bool { return ss[a].start < ss[b].start })
				maxEnd := int64(-1)
				for _, st := range ss {
					if st.start < maxEnd {
						res.OverlapPairs++
					}
					if st.end > maxEnd {
						maxEnd = st.end
					}
				}
			}
			res.Rounds++
		}
	}
	res.Done = true
	b, _ := json.Marshal(res)
	os.WriteFile(out, b, 0o644)
	return 0
}

func argText(s *shared, o opSpec, which int) string {
	switch o.Kind {
	case 0:
		if which == 0 {
			return s.vstr[o.A]
		}
		return s.vstr[o.B]
	case 1:
		if which == 0 {
			return s.rstr[o.A]
		}
		return s.vstr[o.B]
	case 2, 4:
		if which == 0 {
			return s.vstr[o.A]
		}
	case 3, 5:
		if which == 0 {
			return s.rstr[o.A]
		}
	case 6:
		if which == 0 {
			return s.vtexts[o.A]
		}
		return s.vstr[o.B]
	}
	return ""
}

// ---------------------------------------------------------------------------------------------
// history independence (same multiset, shuffled orders, fresh process)

// historyDigests runs, per ecosystem, one fixed multiset of operations in `orders` shuffled orders on
// ONE set of long-lived shared objects and returns per-order maps opIndex -> result digest.
func historyDigests(seed uint64, orders int, first int) []map[string]string {
	out := make([]map[string]string, orders)
	for o := range out {
		out[o] = map[string]string{}
	}
	crossSchemeHistory(seed, out, first)
	for _, name := range eco.Names() {
		r := core.Rand(seed, "C19", "history", name)
		spec := buildShared(name, r, 48, 24)
		if len(spec.vstr) < 4 {
			continue
		}
		sh := spec.materialise()
		ops := make([]opSpec, 250)
		for k := range ops {
			ops[k] = sh.randOp(r)
		}
		for o := 0; o < orders; o++ {
			perm := core.Rand(seed, "C19", "order", name, itoa(o+first)).Perm(len(ops))
			if o+first == 0 {
				perm = identity(len(ops))
			}
			for _, k := range perm {
				out[o][name+"#"+itoa(k)] = opNames[ops[k].Kind] + "|" + argText(spec, ops[k], 0) + "|" + argText(spec, ops[k], 1) + "=>" + sh.exec(ops[k])
			}
		}
	}
	return out
}

// crossSchemeHistory evaluates the SAME constraint texts under all 11 VERS schemes, in an order that
// depends on the order index: a result that depends on which scheme (or which other range) was evaluated
// earlier in the process - e.g. a cache keyed without the scheme - differs between the parent's first
// order and the fresh child's first order.
type cop struct{ text, probe string }

func crossSchemeHistory(seed uint64, out []map[string]string, first int) {
	ops := crossOps(seed)
	for o := range out {
		perm := core.Rand(seed, "C19", "crossorder", itoa(o+first)).Perm(len(ops))
		if o+first == 0 {
			perm = identity(len(ops))
		}
		for _, k := range perm {
			out[o]["cross#"+itoa(k)] = crossExec(ops[k])
		}
	}
}

func crossExec(o cop) string {
	ok, err, pn := eco.SafeVersContains(o.text, o.probe)
	return "VersContains|" + o.text + "|" + o.probe + "=>" + strconv.FormatBool(ok) + ":" + strconv.FormatBool(err == nil) + ":" + strconv.FormatBool(pn == nil)
}

// crossOps: the same constraint bodies under all 11 schemes (+ twin questions).
func crossOps(seed uint64) []cop {
	cands := []string{"1.0.0-1", "1.0.0", "2.0.0-1", "2.0.0", "1.0.0-alpha", "1.0.0-rc.1", "1.0a1", "1.0.post1", "1.0-1", "1.10", "1.9", "0.9", "1.0.0-beta", "1.0",
		"1.0.0-10", "1.0.0-2", "1.0.0-x", "3.0.0", "1.0_p1", "1.0~rc1", "1.0.0.1", "1.0.0-a.b", "v1.0.0", "1.0-sp", "1.0.0-0", "10", "9"}
	var ops []cop
	r := core.Rand(seed, "C19", "cross")
	for k := 0; k < 60; k++ {
		a, b := cands[r.IntN(len(cands))], cands[r.IntN(len(cands))]
		body := gen.Pick(r, ">=", ">", "=", "!=") + a + "|" + gen.Pick(r, "<", "<=", "!=", ">=") + b
		switch r.IntN(3) {
		case 0:
			body += "|" + gen.Pick(r, ">=", "<", "!=") + cands[r.IntN(len(cands))]
		case 1: // advisory-style long ranges: 4..8 constraints (size-dependent paths: memo tables, pre-sorted fast paths)
			for x := 2 + r.IntN(5); x > 0; x-- {
				body += "|" + gen.Pick(r, ">=", "<", "!=", "<=", ">") + cands[r.IntN(len(cands))]
			}
		}
		probes := []string{cands[r.IntN(len(cands))], cands[r.IntN(len(cands))], "3.0.0", "2.0.0", "0.5"}
		for _, sc := range Schemes {
			for _, p := range probes {
				ops = append(ops, cop{"vers:" + sc + "/" + body, p})
			}
		}
		if k%4 == 0 { // twin questions: same concatenation of the two texts, split elsewhere (one scheme is enough)
			sc := Schemes[r.IntN(len(Schemes))]
			for _, p := range probes[:2] {
				for _, tq := range twinQuestions("vers:"+sc+"/"+body, p) {
					ops = append(ops, cop{tq[0], tq[1]})
				}
			}
		}
	}
	return ops
}

// hotStorm: G goroutines hammer ONE shared object (a version as Compare receiver and argument, a range, the ecosystem
// value as parser, one VERS body under all schemes) in tight loops with different partners, in the normal (fast) build
// on all cores; every result is compared with the sequential answer computed beforehand on separate copies. Unlike the
// race storm, whose operations are spread over 64 + 32 objects, two calls are inside the same object at the same
// moment almost all the time: "atomics only" memo fields that are published as two separate stores, single-flight
// tables and per-object caches are race-detector clean and wrong only here.
func hotStorm(c *core.Ctx, w *core.W, only string, sink func(core.Violation)) {
	const G = 16
	iters := c.Scale(3000, 40000)
	var mu sync.Mutex
	reported := map[string]int{}
	report := func(v core.Violation) {
		mu.Lock()
		defer mu.Unlock()
		if reported[v.Eco+v.Args[0]] < 2 {
			reported[v.Eco+v.Args[0]]++
			sink(v)
		}
	}
	gCount := G
	storm := func(name, kind string, n int, want []string, call func(i int) string, arg func(i int) []string) {
		G := gCount
		var wg sync.WaitGroup
		start := make(chan struct{})
		for g := 0; g < G; g++ {
			wg.Add(1)
			go func(g int) {
				defer wg.Done()
				<-start
				for k := 0; k < iters; k++ {
					i := (g*7919 + k*31 + k/7) % n
					got := func() (s string) {
						defer func() {
							if p := recover(); p != nil {
								s = fmt.Sprint("panic: ", p)
							}
						}()
						return call(i)
					}()
					if got != want[i] {
						report(core.Violation{Eco: name, Op: "hot-object", Args: append([]string{kind}, arg(i)...), Rule: "result-differs-under-concurrency-on-one-object", Got: got, Want: want[i]})
						return
					}
				}
			}(g)
		}
		close(start)
		wg.Wait()
		mu.Lock()
		w.Count("evaluations", int64(G*iters))
		w.Count("hot_object_calls:"+kind, int64(G*iters))
		w.Count("hot_objects", 1)
		w.NT(core.Hash64("hot", name, kind, itoa(n)))
		mu.Unlock()
	}
	for _, name := range eco.Names() {
		if only != "" && only != name {
			continue
		}
		r := c.Rand("hot", name)
		spec := buildShared(name, r, 48, 16)
		if len(spec.vstr) < 8 {
			continue
		}
		sh, seq := spec.materialise(), spec.materialise()
		nv := len(sh.vers)
		for rep := 0; rep < 3; rep++ {
			h := r.IntN(nv)
			want := make([]string, nv)
			for i := range want {
				want[i] = itoa(seq.vers[h].Compare(seq.vers[i])) + "/" + itoa(seq.vers[i].Compare(seq.vers[h]))
			}
			storm(name, "Compare", nv, want, func(i int) string {
				return itoa(sh.vers[h].Compare(sh.vers[i])) + "/" + itoa(sh.vers[i].Compare(sh.vers[h]))
			},
				func(i int) []string { return []string{spec.vstr[h], spec.vstr[i]} })
		}
		// every shared range in turn (multi-set, OR and shorthand ranges keep per-object hints and caches)
		for k := range sh.rngs {
			want := make([]string, nv)
			for i := range want {
				want[i] = strconv.FormatBool(seq.rngs[k].Contains(seq.vers[i]))
			}
			saveIters := iters
			iters = max(iters/4, 500)
			storm(name, "Contains", nv, want, func(i int) string { return strconv.FormatBool(sh.rngs[k].Contains(sh.vers[i])) },
				func(i int) []string { return []string{spec.rstr[k], spec.vstr[i]} })
			iters = saveIters
		}
		// fresh-object storm: a range (and a version) parsed a moment ago whose FIRST uses come from 8 goroutines at
		// once, thousands of times - lazily resolved fields published as two separate stores are wrong only in the few
		// nanoseconds between them, once per object
		if len(spec.rstr) > 0 {
			rounds := c.Scale(12000, 100000)
			var bad atomic.Int32
			for rd := 0; rd < rounds && bad.Load() == 0; rd++ {
				k := rd % len(spec.rstr)
				if rd%5 < 3 && len(spec.rstr) > 10 { // mostly the anchored shorthand / interval ranges at the end of the list
					k = len(spec.rstr) - 1 - (rd/5)%10
				}
				rg, err, pn := sh.e.SafeNewRange(spec.rstr[k])
				if pn != nil || err != nil || rg == nil {
					continue
				}
				fv, _, _ := sh.e.SafeNewVersion(spec.vstr[rd%nv])
				start := make(chan struct{})
				var wg sync.WaitGroup
				for g := 0; g < 8; g++ {
					wg.Add(1)
					go func(g int) {
						defer wg.Done()
						defer func() {
							if p := recover(); p != nil && bad.Add(1) == 1 {
								report(core.Violation{Eco: name, Op: "hot-object", Args: []string{"first-use", spec.rstr[k], spec.vstr[(rd+g)%nv]}, Rule: "result-differs-under-concurrency-on-one-object", Got: fmt.Sprint("panic: ", p)})
							}
						}()
						<-start
						i := (rd + g) % nv
						got := rg.Contains(sh.vers[i])
						if want := seq.rngs[k].Contains(seq.vers[i]); got != want && bad.Add(1) == 1 {
							report(core.Violation{Eco: name, Op: "hot-object", Args: []string{"first-use", spec.rstr[k], spec.vstr[i]}, Rule: "result-differs-under-concurrency-on-one-object", Got: strconv.FormatBool(got), Want: strconv.FormatBool(want),
								Detail: "the range object was parsed a moment before; its first Contains calls came from 8 goroutines at once"})
						}
						if fv != nil && g%2 == 1 {
							if a, b := fv.Compare(sh.vers[i]), seq.vers[rd%nv].Compare(seq.vers[i]); a != b && bad.Add(1) == 1 {
								report(core.Violation{Eco: name, Op: "hot-object", Args: []string{"first-use", spec.vstr[rd%nv], spec.vstr[i]}, Rule: "result-differs-under-concurrency-on-one-object", Got: itoa(a), Want: itoa(b),
									Detail: "the version object was parsed a moment before; its first Compare calls came from several goroutines at once"})
							}
						}
					}(g)
				}
				close(start)
				wg.Wait()
			}
			mu.Lock()
			w.Count("evaluations", int64(rounds*8))
			w.Count("fresh_object_first_use_rounds", int64(rounds))
			mu.Unlock()
		}
		// wide storm: 512 (thorough 2048) goroutines in flight at once, each comparing its own pair of LONG siblings (a
		// common stem of ~30 identifiers, so a comparison stays in flight for a while) - fixed-size scratch rings, per-P
		// pools and "at most N concurrent users" assumptions are exceeded here, not with 16 goroutines
		{
			type pair struct {
				xs, ys string
				x, y   eco.Ver
			}
			var pairs []pair
			var wantW []string
			stems := []string{"1.0.0-", "1.0.0.", "1.0-", "1.0_", "1.0~", "1.0+", "v1.0.0-", "1.0.0-rc.", "1.0.0a", "1.0."}
			for k := 0; len(pairs) < 96 && k < 400; k++ {
				stem := stems[k%len(stems)]
				sep := []string{".", "-", "_", ""}[(k/len(stems))%4]
				body := strings.Repeat(fmt.Sprintf("k%03d%s", k, sep), 30)
				if sep == "" {
					body = strings.Repeat(fmt.Sprintf("k%03d", k), 30) + "."
				}
				for _, t := range [][2]string{{"7", "8"}, {"9.x", "9"}, {"7", "7"}} {
					xs, ys := stem+body+t[0], stem+body+t[1]
					x, e1, p1 := sh.e.SafeNewVersion(xs)
					y, e2, p2 := sh.e.SafeNewVersion(ys)
					if p1 != nil || p2 != nil || e1 != nil || e2 != nil || x == nil || y == nil {
						break
					}
					sx, _, _ := seq.e.SafeNewVersion(xs)
					sy, _, _ := seq.e.SafeNewVersion(ys)
					pairs = append(pairs, pair{xs, ys, x, y})
					wantW = append(wantW, itoa(sx.Compare(sy)))
				}
			}
			if len(pairs) > 0 {
				saveIters := iters
				gCount, iters = c.Scale(512, 2048), c.Scale(2000, 4000)
				// many more Ps than cores: the kernel pre-empts the threads mid-comparison, so hundreds of calls are
				// in flight at the same moment (with GOMAXPROCS = cores at most that many are)
				prevP := runtime.GOMAXPROCS(256)
				defer runtime.GOMAXPROCS(prevP)
				storm(name, "Compare-wide", len(pairs), wantW, func(i int) string { return itoa(pairs[i].x.Compare(pairs[i].y)) },
					func(i int) []string { return []string{pairs[i].xs, pairs[i].ys} })
				gCount, iters = G, saveIters
				runtime.GOMAXPROCS(prevP)
			}
		}
		// the ecosystem value as a shared parser: different strings at the same time
		want := make([]string, nv)
		pv := func(e *eco.Eco, vs []eco.Ver, i int) string {
			v, err := e.NewVersion(spec.vstr[i])
			if err != nil || v == nil {
				return "rejected"
			}
			j := (i + 1) % nv
			return v.String() + "|" + itoa(v.Compare(vs[i])) + "|" + itoa(v.Compare(vs[j]))
		}
		for i := range want {
			want[i] = pv(seq.e, seq.vers, i)
		}
		storm(name, "NewVersion", nv, want, func(i int) string { return pv(sh.e, sh.vers, i) }, func(i int) []string { return []string{spec.vstr[i]} })
		// ... and over 4096 distinct strings at once: direct-mapped and sharded parse caches are shared by strings that
		// fall into the same slot (one pair in 65 536), and two parses of DIFFERENT strings must meet in one slot
		{
			var big []string
			seenB := map[string]bool{}
			for tries := 0; len(big) < 4096 && tries < 3000; tries++ {
				for _, x := range gen.Cluster(name, r) {
					if len(big) < 4096 && !seenB[x] {
						seenB[x] = true
						if v, err, pn := seq.e.SafeNewVersion(x); pn == nil && err == nil && v != nil {
							big = append(big, x)
						}
					}
				}
			}
			if len(big) >= 256 {
				wantB := make([]string, len(big))
				pb := func(e *eco.Eco, i int) string {
					v, err := e.NewVersion(big[i])
					if err != nil || v == nil {
						return "rejected"
					}
					w2, err := e.NewVersion(big[(i+1)%len(big)])
					if err != nil || w2 == nil {
						return v.String()
					}
					return v.String() + "|" + itoa(v.Compare(w2))
				}
				for i := range wantB {
					wantB[i] = pb(seq.e, i)
				}
				storm(name, "NewVersion-many-strings", len(big), wantB, func(i int) string { return pb(sh.e, i) }, func(i int) []string { return []string{big[i], big[(i+1)%len(big)]} })
			}
		}
		if nr := len(spec.rstr); nr > 0 {
			wantR := make([]string, nr)
			pr := func(e *eco.Eco, vs []eco.Ver, i int) string {
				g, err := e.NewRange(spec.rstr[i])
				if err != nil || g == nil {
					return "rejected"
				}
				return g.String() + "|" + strconv.FormatBool(g.Contains(vs[i%nv]))
			}
			for i := range wantR {
				wantR[i] = pr(seq.e, seq.vers, i)
			}
			storm(name, "NewVersionRange", nr, wantR, func(i int) string { return pr(sh.e, sh.vers, i) }, func(i int) []string { return []string{spec.rstr[i]} })
		}
	}
	if only != "" && only != "vers" {
		return
	}
	// one VERS body under all schemes at the same time
	ops := crossOps(c.Seed)
	want := make([]string, len(ops))
	for i, o := range ops {
		want[i] = crossExec(o)
	}
	for rep := 0; rep < 3; rep++ {
		storm("vers", "VersContains", len(ops), want, func(i int) string { return crossExec(ops[i]) }, func(i int) []string { return []string{ops[i].text, ops[i].probe} })
	}
	// ... and tightly: the goroutines walk the SAME body, each under its own scheme, in lockstep order
	per := 5 * len(Schemes)
	for b := 0; b+per <= len(ops) && b < 40*per; b += per {
		sub, subWant := ops[b:b+per], want[b:b+per]
		storm("vers", "VersContains-one-body", len(sub), subWant, func(i int) string { return crossExec(sub[i]) }, func(i int) []string { return []string{sub[i].text, sub[i].probe} })
	}
}

// ---------------------------------------------------------------------------------------------
// parent

var raceFrame = regexp.MustCompile(`^\s+(\S+)\(\)\s*$`)

func parseRaceLogs(glob string) (reports int, dedup map[string]string) {
	dedup = map[string]string{}
	files, _ := filepath.Glob(glob)
	for _, f := range files {
		fh, err := os.Open(f)
		if err != nil {
			continue
		}
		sc := bufio.NewScanner(fh)
		sc.Buffer(make([]byte, 1<<20), 1<<24)
		var cur []string
		in := false
		flush := func() {
			if in {
				reports++
				var frames []string
				for _, l := range cur {
					if m := raceFrame.FindStringSubmatch(l); m != nil && strings.Contains(m[1], "go-univers") {
						frames = append(frames, m[1])
					}
				}
				k := strings.Join(uniq(frames), " <-> ")
				if _, ok := dedup[k]; !ok {
					dedup[k] = strings.Join(cur[:min(len(cur), 40)], "\n")
				}
			}
			cur, in = nil, false
		}
		for sc.Scan() {
			l := sc.Text()
			if strings.Contains(l, "WARNING: DATA RACE") {
				flush()
				in = true
			}
			if strings.HasPrefix(l, "==================") && in && len(cur) > 1 {
				flush()
				continue
			}
			if in {
				cur = append(cur, l)
			}
		}
		flush()
		fh.Close()
	}
	return
}

func runC19(c *core.Ctx, ck *Check) {
	evalWitnesses(c, ck)
	self, _ := os.Executable()
	dir := filepath.Join(c.Dir, ".build", "c19."+itoa(os.Getpid()))
	os.MkdirAll(dir, 0o755)
	defer os.RemoveAll(dir)
	w := c.NewW()
	defer w.Merge()

	// (0) state that builds up (volume.go): objects parsed before 560k (thorough 2.2M) further distinct versions were
	// parsed must still be the same objects, give the same answers and equal a fresh parse of their own text
	all := eco.All()
	c.Parallel(len(all), func(pw *core.W, i int) {
		for _, v := range volumeRun(c, pw, all[i], nil, nil, nil, "c19", c.Scale(560000, 2200000)) {
			if !strings.Contains(v.Rule, "transitivity") { // the order laws are C01's subject
				pw.Report(v)
			}
		}
	})
	var rangeEcos []*eco.Eco
	for _, e := range all {
		if _, ok := CmpTable[e.Name]; ok {
			rangeEcos = append(rangeEcos, e)
		}
	}
	c.Parallel(len(rangeEcos), func(pw *core.W, i int) {
		for _, v := range volumeRanges(c, pw, rangeEcos[i], CmpTable[rangeEcos[i].Name], "c19", c.Scale(120000, 600000)) {
			if strings.HasPrefix(v.Rule, "after-volume:") { // ordinary range/Compare disagreements are C02's subject
				pw.Report(v)
			}
		}
	})
	// (1) purity fingerprints + repeated-call determinism, sequential, in this process
	for _, name := range eco.Names() {
		r := c.Rand("purity", name)
		spec := buildShared(name, r, 64, 32)
		if len(spec.vstr) < 4 {
			c.Inconclusive("no accepted versions generated for " + name)
			continue
		}
		sh := spec.materialise()
		fpV := make([]uint64, len(sh.vers))
		for i, v := range sh.vers {
			fpV[i] = fingerprint(v.Raw())
		}
		fpR := make([]uint64, len(sh.rngs))
		for i, rg := range sh.rngs {
			fpR[i] = fingerprint(rg.Raw())
		}
		fpE := fingerprint(sh.e.Raw)
		n := c.Scale(6000, 120000)
		bad := 0
		for k := 0; k < n; k++ {
			o := sh.randOp(r)
			r1 := sh.exec(o)
			r2 := sh.exec(o)
			w.Count("evaluations", 2)
			w.Count("purity_ops:"+opNames[o.Kind], 1)
			if r1 != r2 && bad < 5 {
				bad++
				w.Report(core.Violation{Eco: name, Op: "repeat", Args: []string{opNames[o.Kind], argText(spec, o, 0), argText(spec, o, 1)}, Rule: "repeated-call-differs", Got: r2, Want: r1})
			}
			// fingerprints of the objects this op touched
			chk := func(kind string, idx int, now, was uint64) {
				if now == was {
					return
				}
				// the object's memory changed. That alone is not a violation (a synchronised lazily filled cache is
				// invisible to callers): it is one when some call can OBSERVE it - the object now answers differently
				// from a fresh parse of its own text
				switch kind {
				case "version":
					fpV[idx] = now
				case "range":
					fpR[idx] = now
				default:
					fpE = now
				}
				diff := sh.observableDifference(kind, idx)
				if diff == "" {
					w.Count("internal_state_changes_without_observable_effect", 1)
					return
				}
				if bad < 5 {
					bad++
					w.Report(core.Violation{Eco: name, Op: "fingerprint", Args: []string{opNames[o.Kind], argText(spec, o, 0), argText(spec, o, 1)}, Rule: "call-modified-" + kind,
						Got: "memory of " + kind + " #" + itoa(idx) + " changed across the call and the object now answers differently from a fresh parse: " + diff, Want: "unchanged"})
				}
			}
			switch o.Kind {
			case 0:
				chk("version", o.A, fingerprint(sh.vers[o.A].Raw()), fpV[o.A])
				chk("version", o.B, fingerprint(sh.vers[o.B].Raw()), fpV[o.B])
			case 1:
				chk("range", o.A, fingerprint(sh.rngs[o.A].Raw()), fpR[o.A])
				chk("version", o.B, fingerprint(sh.vers[o.B].Raw()), fpV[o.B])
			case 2, 4:
				chk("version", o.A, fingerprint(sh.vers[o.A].Raw()), fpV[o.A])
			case 3, 5:
				chk("range", o.A, fingerprint(sh.rngs[o.A].Raw()), fpR[o.A])
			}
			if k%64 == 0 {
				chk("ecosystem", 0, fingerprint(sh.e.Raw), fpE)
			}
			w.Count("fingerprint_comparisons", 2)
		}
		if name == "maven" {
			w.Sample(map[string]any{"eco": name, "shared_versions": spec.vstr[:6], "shared_ranges": spec.rstr[:min(4, len(spec.rstr))], "vers_ranges": spec.vtexts[:min(2, len(spec.vtexts))]})
		}
	}

	// (1b) hot objects in the fast build
	hotStorm(c, w, "", func(v core.Violation) { w.Report(v) })

	// (2) history independence: 8 shuffled orders here, once in a fresh process
	hd := historyDigests(c.Seed, 8, 0)
	for o := 1; o < len(hd); o++ {
		bad := 0
		for k, v := range hd[0] {
			w.Count("evaluations", 1)
			if hd[o][k] != v && bad < 5 {
				bad++
				w.Report(core.Violation{Eco: strings.SplitN(k, "#", 2)[0], Op: "history", Args: []string{k, itoa(o)}, Rule: "result-depends-on-call-history", Got: hd[o][k], Want: v})
			}
		}
	}
	hout := filepath.Join(dir, "history.json")
	cmd := exec.Command(self, "C19", "--child", "history", strconv.FormatUint(c.Seed, 10), hout)
	if err := cmd.Run(); err == nil {
		var fresh map[string]string
		if b, err := os.ReadFile(hout); err == nil && json.Unmarshal(b, &fresh) == nil {
			bad := 0
			for k, v := range hd[0] {
				w.Count("evaluations", 1)
				if fresh[k] != v && bad < 5 {
					bad++
					w.Report(core.Violation{Eco: strings.SplitN(k, "#", 2)[0], Op: "history", Args: []string{k, "fresh-process"}, Rule: "result-differs-in-fresh-process", Got: fresh[k], Want: v})
				}
			}
			w.Count("fresh_process_ops_compared", int64(len(hd[0])))
		}
	} else {
		c.Inconclusive("fresh-process history child failed: " + err.Error())
	}

	// (3) race build + storms
	goBin := os.Getenv("VERIF_GO")
	if goBin == "" {
		goBin = "go"
	}
	raceBin := filepath.Join(dir, "verifmon.race")
	bc := exec.Command(goBin, "build", "-race", "-o", raceBin, "./cmd/verifmon")
	bc.Dir = filepath.Join(c.Dir, "harness")
	if b, err := bc.CombinedOutput(); err != nil {
		c.Inconclusive("race build failed: " + trunc(string(b), 400))
		return
	}
	repeats := c.Scale(1, 3)
	totalReports := 0
	allDedup := map[string]string{}
	for rep := 0; rep < repeats; rep++ {
		// one race child per group of ecosystems, in parallel
		names := eco.Names()
		var wg sync.WaitGroup
		var mu sync.Mutex
		sem := make(chan struct{}, 8)
		for _, name := range names {
			wg.Add(1)
			go func(name string) {
				defer wg.Done()
				sem <- struct{}{}
				defer func() { <-sem }()
				out := filepath.Join(dir, fmt.Sprintf("race-%s-%d.json", name, rep))
				logp := filepath.Join(dir, fmt.Sprintf("racelog-%s-%d", name, rep))
				cmd := exec.Command("timeout", "-s", "QUIT", itoa(c.Scale(900, 5400)), raceBin, "C19", "--child", "race", c.Tier, strconv.FormatUint(c.Seed+uint64(rep)*1000, 10), out)
				cmd.Env = append(os.Environ(), "GORACE=halt_on_error=0 log_path="+logp, "VERIF_C19_ECO="+name)
				ef, _ := os.Create(out + ".stderr")
				cmd.Stderr = ef
				err := cmd.Run()
				ef.Close()
				mu.Lock()
				defer mu.Unlock()
				var rr raceResult
				if b, e2 := os.ReadFile(out); e2 == nil {
					json.Unmarshal(b, &rr)
				}
				w.Count("evaluations", rr.Ops)
				w.Count("race_build_ops", rr.Ops)
				w.Count("race_rounds", int64(rr.Rounds))
				w.Count("shared_objects_touched_by_2plus_goroutines", rr.SharedTouched)
				w.Count("overlapping_op_pairs_on_same_object", rr.OverlapPairs)
				for k, v := range rr.ByOp {
					w.Count("race_ops:"+k, v)
				}
				for _, k := range rr.NTKeys {
					w.NT(k)
				}
				for _, v := range rr.Mismatches {
					w.Report(v)
				}
				nrep, dd := parseRaceLogs(logp + ".*")
				totalReports += nrep
				for k, v := range dd {
					if _, ok := allDedup[k]; !ok {
						allDedup[k] = v
						w.Report(core.Violation{Eco: name, Op: "race", Args: []string{k}, Rule: "data-race", Got: trunc(v, 3000), Want: "no DATA RACE report"})
					}
				}
				if !rr.Done {
					eb, _ := os.ReadFile(out + ".stderr")
					es := string(eb)
					switch {
					case strings.Contains(es, "fatal error:"):
						w.Report(core.Violation{Eco: name, Op: "race", Args: []string{"runtime fatal error"}, Rule: "runtime-fatal-error", Got: trunc(es, 3000)})
					case nrep > 0:
					default:
						c.Inconclusive(fmt.Sprintf("race child for %s did not finish (%v): %s", name, err, trunc(es, 300)))
					}
				}
			}(name)
		}
		wg.Wait()
	}
	// cold-start children: one fresh race-build process per ecosystem and repetition whose first library calls are
	// concurrent (coldChild)
	{
		names := eco.Names()
		var wg sync.WaitGroup
		var mu sync.Mutex
		sem := make(chan struct{}, 12)
		for rep := 0; rep < c.Scale(3, 12); rep++ {
			for _, name := range names {
				wg.Add(1)
				go func(name string, rep int) {
					defer wg.Done()
					sem <- struct{}{}
					defer func() { <-sem }()
					out := filepath.Join(dir, fmt.Sprintf("cold-%s-%d.json", name, rep))
					logp := filepath.Join(dir, fmt.Sprintf("coldlog-%s-%d", name, rep))
					cmd := exec.Command("timeout", "-s", "QUIT", "300", raceBin, "C19", "--child", "cold", name, strconv.FormatUint(c.Seed+uint64(rep)*7919, 10), out)
					cmd.Env = append(os.Environ(), "GORACE=halt_on_error=0 log_path="+logp, "GOMAXPROCS=8")
					ef, _ := os.Create(out + ".stderr")
					cmd.Stderr = ef
					err := cmd.Run()
					ef.Close()
					mu.Lock()
					defer mu.Unlock()
					var rr raceResult
					if b, e2 := os.ReadFile(out); e2 == nil {
						json.Unmarshal(b, &rr)
					}
					w.Count("evaluations", rr.Ops)
					w.Count("cold_start_processes", 1)
					w.Count("cold_start_ops", rr.Ops)
					for k, v := range rr.ByOp {
						w.Count("race_ops:"+k, v)
					}
					w.NT(core.Hash64("cold", name, itoa(rep)))
					for _, v := range rr.Mismatches {
						w.Report(v)
					}
					nrep, dd := parseRaceLogs(logp + ".*")
					totalReports += nrep
					for k, v := range dd {
						if _, ok := allDedup[k]; !ok {
							allDedup[k] = v
							w.Report(core.Violation{Eco: name, Op: "race", Args: []string{k, "cold-start"}, Rule: "data-race", Got: trunc(v, 3000), Want: "no DATA RACE report"})
						}
					}
					if !rr.Done {
						eb, _ := os.ReadFile(out + ".stderr")
						es := string(eb)
						switch {
						case strings.Contains(es, "fatal error:") || strings.Contains(es, "panic:"):
							w.Report(core.Violation{Eco: name, Op: "race", Args: []string{"cold-start process died"}, Rule: "runtime-fatal-error", Got: trunc(es, 3000)})
						case nrep > 0:
						default:
							c.Inconclusive(fmt.Sprintf("cold-start child for %s did not finish (%v): %s", name, err, trunc(es, 300)))
						}
					}
				}(name, rep)
			}
		}
		wg.Wait()
	}
	w.Count("race_reports", int64(totalReports))
	c.Note("race_reports_total", totalReports)
	c.Note("race_reports_distinct_stack_pairs", len(allDedup))
	c.Note("race_configurations", "G in {4,16,64} x GOMAXPROCS in {2,4,16}, barrier-released, Gosched at PRNG points, builder-goroutine hand-over on odd rounds")
}

// evalC19 re-runs the sequential purity/history monitors for one ecosystem, or the race storm when op == "race".
func evalC19(c *core.Ctx, e *eco.Eco, op string, args []string) []core.Violation {
	if op == "hot-object" {
		// re-run the storm for the ecosystem (or for vers) of the witness; interleavings differ from run to run
		name := "vers"
		if e != nil {
			name = e.Name
		}
		var out []core.Violation
		var mu sync.Mutex
		hotStorm(c, c.NewW(), name, func(v core.Violation) { mu.Lock(); out = append(out, v); mu.Unlock() })
		return out
	}
	if op == "history" {
		// re-run the history differential: two orders here, one different order in a fresh process
		var out []core.Violation
		hd := historyDigests(c.Seed, 2, 0)
		for k, v := range hd[0] {
			if hd[1][k] != v && len(out) < 3 {
				out = append(out, core.Violation{Eco: strings.SplitN(k, "#", 2)[0], Op: "history", Args: []string{k, "1"}, Rule: "result-depends-on-call-history", Got: hd[1][k], Want: v})
			}
		}
		self, _ := os.Executable()
		tmp := filepath.Join(os.TempDir(), "verif-c19-replay-"+itoa(os.Getpid())+".json")
		defer os.Remove(tmp)
		if err := exec.Command(self, "C19", "--child", "history", strconv.FormatUint(c.Seed, 10), tmp).Run(); err == nil {
			var fresh map[string]string
			if b, err := os.ReadFile(tmp); err == nil && json.Unmarshal(b, &fresh) == nil {
				for k, v := range hd[0] {
					if fresh[k] != v && len(out) < 6 {
						out = append(out, core.Violation{Eco: strings.SplitN(k, "#", 2)[0], Op: "history", Args: []string{k, "fresh-process"}, Rule: "result-differs-in-fresh-process", Got: fresh[k], Want: v})
					}
				}
			}
		}
		return out
	}
	if e == nil {
		return nil
	}
	if op == "volume-ranges" && len(args) >= 2 {
		v, _ := strconv.Atoi(args[1])
		var out []core.Violation
		for _, x := range volumeRanges(c, c.NewW(), e, CmpTable[e.Name], args[0], v) {
			if strings.HasPrefix(x.Rule, "after-volume:") {
				out = append(out, x)
			}
		}
		return out
	}
	if op == "volume" && len(args) >= 2 {
		v, _ := strconv.Atoi(args[1])
		var out []core.Violation
		for _, x := range volumeRun(c, c.NewW(), e, nil, nil, nil, args[0], v) {
			if !strings.Contains(x.Rule, "transitivity") {
				out = append(out, x)
			}
		}
		return out
	}
	var out []core.Violation
	r := core.Rand(c.Seed, "C19", "purity", e.Name)
	spec := buildShared(e.Name, r, 64, 32)
	if len(spec.vstr) < 4 {
		return nil
	}
	sh := spec.materialise()
	fp := map[int]uint64{}
	for i, v := range sh.vers {
		fp[i] = fingerprint(v.Raw())
	}
	for k := 0; k < 20000 && len(out) == 0; k++ {
		o := sh.randOp(r)
		r1, r2 := sh.exec(o), sh.exec(o)
		if r1 != r2 {
			out = append(out, core.Violation{Eco: e.Name, Op: "repeat", Args: []string{opNames[o.Kind], argText(spec, o, 0), argText(spec, o, 1)}, Rule: "repeated-call-differs", Got: r2, Want: r1})
		}
		if o.Kind == 0 || o.Kind == 2 || o.Kind == 4 {
			if now := fingerprint(sh.vers[o.A].Raw()); now != fp[o.A] {
				fp[o.A] = now
				if d := sh.observableDifference("version", o.A); d != "" {
					out = append(out, core.Violation{Eco: e.Name, Op: "fingerprint", Args: []string{opNames[o.Kind], argText(spec, o, 0)}, Rule: "call-modified-version", Got: d})
				}
			}
		}
	}
	return out
}
