package checks

import (
	"strconv"
	"strings"

	"verif/harness/core"
	"verif/harness/eco"
	"verif/harness/gen"
)

func init() {
	ck := &Check{
		ID: "C20",
		Rule: "per ecosystem: pools enriched with order-preserving respellings (prefix v, trailing .0, build metadata, letter case, alias qualifiers, separator variants, leading zeros); " +
			"equal pairs are DISCOVERED with Compare == 0; every accepted range string of the full range grammar (comparators, shorthands, brackets, wildcards, mutation-accepted) is evaluated on the whole pool: " +
			"(a) Compare-equal versions must agree on membership; (b) for conjunction-only ranges the members must form one contiguous block of classes in the pool's sorted order. " +
			"Exclusions per the quantifier: '||', '!=', '<>', '!=P.*' (convexity only), pypi '===', composer '@' stability flags, alpm pairs differing in pkgrel presence; pools that are not total preorders are skipped (C01). " +
			"Non-trivial = distinct (ecosystem, range, class) with a class of >= 2 spellings, and distinct (ecosystem, range) with >= 3 classes for convexity",
		Assumptions: []string{"Compare is the order", "conjunction-only is decided on the range text"},
		MinEvals:    50000,
	}
	ck.Eval = evalC20
	ck.Run = func(c *core.Ctx) { runC20(c, ck) }
	register(ck)
}

// c20Vectors are fixed (ranges, versions) present in the first pool of every run: spelling variants
// that compare equal and the shorthand ranges most likely to look at spelling instead of order.
var c20Vectors = map[string][2][]string{
	"composer": {{"^1.0.0", "^1.2.3", "^0.3", "~1.2", "^1.0", ">=1.0.0-beta1"}, {"1.0b1", "1.0.0-beta1", "1.0.0b1", "1.0.0-b1", "1.0-beta1", "1.0.0", "1.0", "v1.0.0", "1.2.3-alpha", "1.2.3a1", "1.4.0-beta1", "1.3.0", "1.5.0", "0.3.0-RC1", "0.3"}},
	"conan":    {{"~1.2", "^1.2", "~1", "^0.2.3"}, {"1.2.5", "01.2.5", "1.02.5", "1.2.5.0", "1.3.0-alpha", "1.2", "1.2.0", "0.2.3", "0.02.3", "0.2.9"}},
	"gem":      {{"~> 1.2", "~> 1.2.3", "~>1.0"}, {"1.2.5", "1.02.5", "1.2.5.0", "v1.2.5", "1.2", "1.2.0", "2.0.rc1", "2.0.0.rc1", "1.2.3.a", "1.2.3-a"}},
	"cargo":    {{"^1.2.3", "~1.2", "^0.0.3", "1.*"}, {"1.2.3", "01.2.3", "1.02.3", "1.2.3+b", "1.2.3-alpha", "1.2.3-alpha+b", "0.0.3", "0.0.03", "00.0.3"}},
	"npm":      {{"^1.2.3", "~1.2.3", "1.x", "1.2.3 - 2.0.0", "^0.0.3"}, {"1.2.3", "v1.2.3", "=1.2.3", "01.2.3", "1.2.3+b", "1.2.03", "2.0.0", "v2.0.0", "2.0.0+x", "0.0.3", "0.0.03"}},
	"hex":      {{"~>1.2", "~>1.2.3", ">=1.2.0 and <2.0.0"}, {"1.2.3", "01.2.3", "1.02.3", "1.2.3+b", "1.2", "1.2.0", "1.2.0+b"}},
	"pypi":     {{"~=1.2", "==1.2.*", "~=1.2.3", ">=1.2,<2"}, {"1.2", "1.2.0", "1.02", "1.2.0.0", "1.2rc1", "1.2c1", "1.2.rc1", "1.2.post1", "1.2.r1", "1.2-1" /* rejected */, "1.2.3", "1.2.03"}},
	"nuget":    {{"[1.2,2.0)", "(1.2,)", "1.2"}, {"1.2", "1.2.0", "1.2.0.0", "v1.2", "01.2", "1.2.0+b", "2.0", "2.0.0", "2.0.0.0"}},
	"maven":    {{"[1.2,2.0)", "(,1.2]", "[1.2]"}, {"1.2", "1.2.0", "1.2-ga", "1.2.final", "1.2.0-release", "1.02", "2.0", "2", "2.0.0", "2-GA", "1.2-a1", "1.2-alpha-1"}},
	"debian":   {{">=1.0-0", "<<1.0", "=1.0"}, {"1.0", "1.0-0", "0:1.0", "0:1.0-0", "1.00", "01.0", "1.0-00"}},
	"golang":   {{">=v1.2.3", "<v2.0.0"}, {"v1.2.3", "1.2.3", "v1.2.3+incompatible", "v2.0.0", "2.0.0", "v2.0.0+b"}},
	"semver":   {{">=1.2.3", "<2.0.0 >=1.0.0"}, {"1.2.3", "1.2.3+b", "1.2.3+b.1", "2.0.0", "2.0.0+x"}},
}

func rangeExcluded(ecoName, rs string) bool {
	if ecoName == "pypi" && strings.Contains(rs, "===") {
		return true
	}
	if ecoName == "composer" && strings.Contains(rs, "@") {
		return true
	}
	return false
}

func conjunctionOnly(ecoName, rs string) bool {
	if strings.Contains(rs, "||") || strings.Contains(rs, "!=") || strings.Contains(rs, "<>") {
		return false
	}
	if (ecoName == "maven" || ecoName == "nuget") && (strings.Contains(rs, "],") || strings.Contains(rs, "),")) {
		return false
	}
	return true
}

// evalC20 ops: equal-pair [range, a, b]; convex [range, a, b, c].
func evalC20(c *core.Ctx, e *eco.Eco, op string, args []string) []core.Violation {
	if e == nil || len(args) < 3 {
		return nil
	}
	if op == "used-range" && len(args) >= 7 {
		// replay: ask the two versions, then N distinct others, then the two again - on one range object
		rg, err, pn := e.SafeNewRange(args[0])
		if !accepted(isNilRng(rg), err, pn) {
			return nil
		}
		tpl := volTemplate{pre: args[3], post: args[4], word: args[5] == "true"}
		n, _ := strconv.Atoi(args[6])
		var vs []eco.Ver
		var first []bool
		for _, sx := range args[1:3] {
			v, err, pn := e.SafeNewVersion(sx)
			if !accepted(isNilVer(v), err, pn) {
				return nil
			}
			g, _ := eco.SafeContains(rg, v)
			vs, first = append(vs, v), append(first, g)
		}
		for x := 0; x < n; x++ {
			if v, err, pn := e.SafeNewVersion(tpl.at(x)); pn == nil && err == nil && v != nil {
				eco.SafeContains(rg, v)
			}
		}
		for x, v := range vs {
			if g, _ := eco.SafeContains(rg, v); g != first[x] {
				return []core.Violation{{Eco: e.Name, Op: op, Args: args, Rule: "membership-depends-on-earlier-questions", Got: b2s(g), Want: b2s(first[x])}}
			}
		}
		return nil
	}
	rs := args[0]
	if rangeExcluded(e.Name, rs) {
		return nil
	}
	r, err, pn := e.SafeNewRange(rs)
	if !accepted(isNilRng(r), err, pn) {
		return nil
	}
	var vs []eco.Ver
	for _, s := range args[1:] {
		v, err, pn := e.SafeNewVersion(s)
		if !accepted(isNilVer(v), err, pn) {
			return nil
		}
		vs = append(vs, v)
	}
	mk := func(rule, got, want string) []core.Violation {
		// the range's own bound versions together with the probes: is the upstream order itself cyclic here?
		list := append([]string{}, args[1:]...)
		for _, tok := range strings.FieldsFunc(rs, func(c rune) bool { return strings.ContainsRune(" ,|<>=!~^()[]@*", c) }) {
			if v, err, pn := e.SafeNewVersion(tok); accepted(isNilVer(v), err, pn) {
				list = append(list, tok)
			}
		}
		// the bound as the range parser may have read it: pieces between the list separators with zero, one or two leading
		// operator / bracket characters and at most one trailing bracket removed ("((2.9,)" has the bound "(2.9" for a
		// parser that strips one bracket and accepts any text as a version)
		for _, piece := range strings.FieldsFunc(rs, func(c rune) bool { return strings.ContainsRune(" ,|", c) }) {
			for k := 0; k <= 2 && k < len(piece); k++ {
				for _, t := range []string{piece[k:], strings.TrimRight(piece[k:], ")]")} {
					if t == "" || len(list) > 40 {
						continue
					}
					if v, err, pn := e.SafeNewVersion(t); accepted(isNilVer(v), err, pn) {
						list = append(list, t)
					}
				}
			}
		}
		if inheritedNonTransitive(e, uniq(list)) {
			rule += ":inherited-from-reference"
		}
		return []core.Violation{{Eco: e.Name, Op: op, Args: args, Rule: rule, Got: got, Want: want}}
	}
	in := make([]bool, len(vs))
	for i, v := range vs {
		g, pn := eco.SafeContains(r, v)
		if pn != nil {
			return nil
		}
		in[i] = g
	}
	switch op {
	case "equal-pair":
		if e.Name == "alpm" && alpmHasPkgrel(args[1]) != alpmHasPkgrel(args[2]) {
			return nil
		}
		c1, p1 := eco.SafeCompare(vs[0], vs[1])
		c2, p2 := eco.SafeCompare(vs[1], vs[0])
		if p1 != nil || p2 != nil || c1 != 0 || c2 != 0 {
			return nil
		}
		if in[0] != in[1] {
			return mk("equal-versions-disagree", b2s(in[0])+"/"+b2s(in[1]), "both or neither")
		}
	case "convex":
		if len(vs) < 3 || !conjunctionOnly(e.Name, rs) {
			return nil
		}
		if e.Name == "alpm" && (alpmHasPkgrel(args[1]) != alpmHasPkgrel(args[2]) || alpmHasPkgrel(args[2]) != alpmHasPkgrel(args[3])) {
			return nil
		}
		ab, p1 := eco.SafeCompare(vs[0], vs[1])
		bc, p2 := eco.SafeCompare(vs[1], vs[2])
		ac, p3 := eco.SafeCompare(vs[0], vs[2])
		if p1 != nil || p2 != nil || p3 != nil || ab > 0 || bc > 0 || ac > 0 {
			return nil
		}
		if in[0] && in[2] && !in[1] {
			return mk("not-convex", "contains a and c but not b", "a<=b<=c, a and c contained => b contained")
		}
	}
	return nil
}

func runC20(c *core.Ctx, ck *Check) {
	evalWitnesses(c, ck)
	rounds := c.Scale(12, 500)
	nRanges := c.Scale(120, 300)
	type job struct {
		e *eco.Eco
		k int
	}
	var jobs []job
	for _, e := range eco.All() {
		for k := 0; k < rounds; k++ {
			jobs = append(jobs, job{e, k})
		}
	}
	c.Parallel(len(jobs), func(w *core.W, i int) {
		j := jobs[i]
		e := j.e
		r := c.Rand("c20", e.Name, itoa(j.k))
		raw := BuildPool(e, r, 150, w)
		// enrich with respellings
		seen := map[string]bool{}
		for _, s := range raw.Strs {
			seen[s] = true
		}
		for _, s := range append([]string{}, raw.Strs...) {
			for _, x := range gen.Respell(e.Name, s, r) {
				if len(raw.Strs) < 260 {
					raw.Add(x, seen)
				}
			}
		}
		var fixedRanges []string
		if j.k == 0 {
			if vec, ok := c20Vectors[e.Name]; ok {
				fixedRanges = vec[0]
				for _, x := range vec[1] {
					raw.Add(x, seen)
				}
			}
		}
		pools := []*Pool{raw}
		if e.Name == "alpm" {
			a, b := &Pool{Eco: e}, &Pool{Eco: e}
			for x, s := range raw.Strs {
				if alpmHasPkgrel(s) {
					a.Strs, a.Vers = append(a.Strs, s), append(a.Vers, raw.Vers[x])
				} else {
					b.Strs, b.Vers = append(b.Strs, s), append(b.Vers, raw.Vers[x])
				}
			}
			pools = []*Pool{a, b}
		}
		for _, p := range pools {
			n := len(p.Vers)
			if n < 6 {
				continue
			}
			// sorted order + classes; verify preorder on the sorted sequence
			idx := p.SortedIdx()
			cls := make([]int, n) // class id per sorted position
			ok := true
			for a := 1; a < n; a++ {
				cv, pn := eco.SafeCompare(p.Vers[idx[a-1]], p.Vers[idx[a]])
				if pn != nil || cv > 0 {
					ok = false
					break
				}
				cls[a] = cls[a-1]
				if cv != 0 {
					cls[a]++
				}
			}
			for a := 0; a < n && ok; a++ {
				for b := a + 1; b < n; b++ {
					cv, pn := eco.SafeCompare(p.Vers[idx[a]], p.Vers[idx[b]])
					if pn != nil || cv > 0 || (cv == 0) != (cls[a] == cls[b]) {
						ok = false
						break
					}
				}
			}
			if !ok {
				w.Count("pools_skipped_not_preorder", 1)
				continue
			}
			w.Count("equal_classes_with_several_spellings", int64(n-(cls[n-1]+1)))
			// distinct extra versions for (c), parsed once per pool
			var volVers []eco.Ver
			var volTpl volTemplate
			if tp := volTemplates(e, nil, p.Strs, r, 1); len(tp) > 0 {
				volTpl = tp[0]
				for x := 0; x < c.Scale(1500, 20000); x++ {
					if v, err, pn := e.SafeNewVersion(volTpl.at(x)); pn == nil && err == nil && v != nil {
						volVers = append(volVers, v)
					}
				}
			}
			reported := map[string]int{}
			for k := 0; k < nRanges+len(fixedRanges); k++ {
				var rs string
				if k >= nRanges {
					rs = fixedRanges[k-nRanges]
				} else {
					rs = ""
				}
				switch {
				case rs != "":
				default:
					switch r.IntN(6) {
					case 0:
						rs = gen.Hostile(gen.RangeOne(e.Name, r), r)
					case 1: // a range anchored on pool members
						rs = anchoredRange(e.Name, p, r)
						if syn, ok := CmpTable[e.Name]; ok && len(syn.or) > 0 && r.IntN(4) == 0 {
							// enumeration: 16..40 exact pool members joined by OR (set-based fast paths for long lists)
							cnt := []int{16, 17, 20, 32, 33, 40}[r.IntN(6)]
							at := r.IntN(len(idx))
							var parts []string
							for x := 0; x < cnt; x++ {
								k2 := at + r.IntN(cnt) - cnt/2
								if k2 < 0 {
									k2 = 0
								}
								if k2 >= len(idx) {
									k2 = len(idx) - 1
								}
								m := p.Strs[idx[k2]]
								if !boundOK(e.Name, m) {
									continue
								}
								if r.IntN(2) == 0 {
									m = "=" + m
								}
								parts = append(parts, m)
							}
							if len(parts) >= 16 {
								rs = strings.Join(parts, syn.or[r.IntN(len(syn.or))])
								w.Count("long_enumeration_ranges", 1)
							}
						}
					default:
						rs = gen.RangeOne(e.Name, r)
					}
				}
				if rangeExcluded(e.Name, rs) {
					continue
				}
				rg, err, pn := e.SafeNewRange(rs)
				if !accepted(isNilRng(rg), err, pn) {
					w.Count("rejected:range", 1)
					continue
				}
				w.Count("accepted:range", 1)
				in := make([]bool, n)
				for a := 0; a < n; a++ {
					g, pn := eco.SafeContains(rg, p.Vers[idx[a]])
					in[a] = g && pn == nil
				}
				w.Count("evaluations", int64(n))
				w.Count("events:Contains", int64(n))
				// (a) equal versions agree
				for a := 1; a < n; a++ {
					if cls[a] == cls[a-1] {
						w.NT(core.Hash64(e.Name, rs, itoa(cls[a])))
						if in[a] != in[a-1] && reported["eq"] < 4 {
							for _, v := range evalC20(c, e, "equal-pair", []string{rs, p.Strs[idx[a-1]], p.Strs[idx[a]]}) {
								reported["eq"]++
								w.Report(v)
							}
						}
					}
				}
				// (b) convexity
				if conjunctionOnly(e.Name, rs) {
					if cls[n-1] >= 2 {
						w.NT(core.Hash64(e.Name, rs, "convex"))
					}
					first, last := -1, -1
					for a := 0; a < n; a++ {
						if in[a] {
							if first < 0 {
								first = a
							}
							last = a
						}
					}
					for a := first + 1; a < last && first >= 0; a++ {
						if !in[a] && cls[a] != cls[first] && cls[a] != cls[last] && reported["cv"] < 4 {
							for _, v := range evalC20(c, e, "convex", []string{rs, p.Strs[idx[first]], p.Strs[idx[a]], p.Strs[idx[last]]}) {
								reported["cv"]++
								w.Report(v)
							}
						}
					}
				}
				// (c) the same range OBJECT after it answered many other questions: membership must still depend on
				// nothing but the order (equal versions agree, and every answer is the one given before)
				if k%12 == 5 && len(volVers) > 0 {
					for _, v := range volVers {
						eco.SafeContains(rg, v)
					}
					w.Count("used_range_objects", 1)
					w.Count("questions_to_used_range_objects", int64(len(volVers)))
					for a := 0; a < n; a++ {
						g, pn := eco.SafeContains(rg, p.Vers[idx[a]])
						g = g && pn == nil
						w.Count("evaluations", 1)
						if g != in[a] && reported["used"] < 3 {
							reported["used"]++
							partner := a - 1
							if a == 0 {
								partner = 1
							}
							w.Report(core.Violation{Eco: e.Name, Op: "used-range", Args: []string{rs, p.Strs[idx[a]], p.Strs[idx[partner]], volTpl.pre, volTpl.post, b2s(volTpl.word), itoa(len(volVers))},
								Rule: "membership-depends-on-earlier-questions", Got: b2s(g), Want: b2s(in[a]),
								Detail: "the range object gave another answer for the same version after it had been asked about " + itoa(len(volVers)) + " other versions"})
						}
					}
				}
				if k == 0 {
					w.Sample(map[string]any{"eco": e.Name, "range": rs, "pool": n, "classes": cls[n-1] + 1})
				}
			}
		}
	})
}

// anchoredRange builds a range whose bounds are pool members (so that probes sit on the bounds).
func anchoredRange(ecoName string, p *Pool, r interface{ IntN(int) int }) string {
	pick := func() string {
		for k := 0; k < 10; k++ {
			s := p.Strs[r.IntN(len(p.Strs))]
			if boundOK(ecoName, s) {
				return s
			}
		}
		return "1.0.0"
	}
	a, b := pick(), pick()
	switch ecoName {
	case "maven", "nuget":
		return []string{"[" + a + "," + b + "]", "(" + a + "," + b + ")", "[" + a + ",)", "(," + b + "]", "[" + a + "]"}[r.IntN(5)]
	case "npm":
		return []string{"^" + a, "~" + a, ">=" + a + " <" + b, a + " - " + b, "<=" + a}[r.IntN(5)]
	case "cargo":
		return []string{"^" + a, "~" + a, ">=" + a + ", <" + b, "<=" + a, "=" + a}[r.IntN(5)]
	case "composer":
		return []string{"^" + a, "~" + a, ">=" + a + " <" + b, a + " - " + b, "<=" + a, ">=" + a + ",<=" + b}[r.IntN(6)]
	case "conan":
		return []string{"^" + a, "~" + a, ">=" + a + " <" + b, "<=" + a, ">" + a + ", <=" + b}[r.IntN(5)]
	case "gem":
		return []string{"~> " + a, "~>" + a, ">=" + a + ", <" + b, "<=" + a}[r.IntN(4)]
	case "hex":
		return []string{"~>" + a, ">=" + a + " <" + b, "<=" + a, ">=" + a + " and <=" + b}[r.IntN(4)]
	case "pypi":
		return []string{"~=" + a, "==" + a, ">=" + a + ",<" + b, "<=" + a, "==" + a + ".*"}[r.IntN(5)]
	}
	syn := CmpTable[ecoName]
	sep := " "
	if len(syn.and) > 0 {
		sep = syn.and[0]
	}
	return []string{">=" + a + sep + "<" + b, "<=" + a, ">" + a + sep + "<=" + b, "=" + a, ">=" + a}[r.IntN(5)]
}
