// Package checks holds one monitor-driving check per property. Every check has two entry points:
// Eval re-evaluates the oracle on one concrete case (used by replay and by known-finding witnesses)
// and Run drives the workload.
package checks

import (
	"fmt"
	"math/rand/v2"
	"sort"

	"verif/harness/core"
	"verif/harness/eco"
	"verif/harness/gen"
)

// Check is one property's machinery.
type Check struct {
	ID          string
	Rule        string   // how cases are generated and what makes one non-trivial
	Assumptions []string // trusted base
	MinEvals    int64    // event floor below which the run is inconclusive
	Run         func(c *core.Ctx)
	// Eval re-evaluates one concrete case and returns the violations it exhibits now.
	Eval func(c *core.Ctx, e *eco.Eco, op string, args []string) []core.Violation
}

// Registry maps property id to its check.
var Registry = map[string]*Check{}

func register(c *Check) { Registry[c.ID] = c }

// Pool is a set of textually distinct accepted versions.
type Pool struct {
	Eco  *eco.Eco
	Strs []string
	Vers []eco.Ver
}

// Add parses s and adds it when accepted and new; reports acceptance.
func (p *Pool) Add(s string, seen map[string]bool) bool {
	if seen[s] {
		return true
	}
	v, err, pn := p.Eco.SafeNewVersion(s)
	if pn != nil || err != nil || v == nil {
		return false
	}
	seen[s] = true
	p.Strs = append(p.Strs, s)
	p.Vers = append(p.Vers, v)
	return true
}

// BuildPool builds a pool of about n accepted versions as a union of clusters and free draws.
func BuildPool(e *eco.Eco, r *rand.Rand, n int, w *core.W) *Pool {
	p := &Pool{Eco: e}
	seen := map[string]bool{}
	tries := 0
	for len(p.Strs) < n && tries < n*40 {
		if r.IntN(3) == 0 {
			for k := 0; k < 12 && len(p.Strs) < n; k++ {
				tries++
				ok := p.Add(gen.One(e.Name, r), seen)
				countAcc(w, "gen/one", ok)
			}
			continue
		}
		for _, s := range gen.Cluster(e.Name, r) {
			tries++
			ok := p.Add(s, seen)
			countAcc(w, "gen/cluster", ok)
			if len(p.Strs) >= n {
				break
			}
		}
	}
	return p
}

func countAcc(w *core.W, class string, ok bool) {
	if w == nil {
		return
	}
	if ok {
		w.Count("accepted:"+class, 1)
	} else {
		w.Count("rejected:"+class, 1)
	}
}

// SortedIdx returns pool indices sorted with the implementation's own Compare.
func (p *Pool) SortedIdx() []int {
	idx := make([]int, len(p.Vers))
	for i := range idx {
		idx[i] = i
	}
	sort.SliceStable(idx, func(a, b int) bool {
		c, pn := eco.SafeCompare(p.Vers[idx[a]], p.Vers[idx[b]])
		return pn == nil && c < 0
	})
	return idx
}

func sgn(x int) int {
	switch {
	case x < 0:
		return -1
	case x > 0:
		return 1
	}
	return 0
}

func itoa(i int) string { return fmt.Sprint(i) }

// evalWitnesses runs every known-finding witness of this property through Eval so that the
// KNOWN-FINDING line is printed deterministically at every seed (and disappears once repaired).
func evalWitnesses(c *core.Ctx, ck *Check) {
	for _, f := range c.Findings() {
		if f.Witness == nil || ck.Eval == nil {
			continue
		}
		e := eco.ByName(f.Witness.Eco)
		if e == nil && f.Witness.Eco != "" && f.Witness.Eco != "vers" && f.Witness.Eco != "cli" {
			continue
		}
		for _, v := range ck.Eval(c, e, f.Witness.Op, f.Witness.Args) {
			c.Report(v)
		}
	}
}

// C19Child is set by c19.go.
var C19Child func(args []string) int
