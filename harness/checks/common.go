// Package checks holds one monitor-driving check per property. Every check has two entry points:
// Eval re-evaluates the oracle on one concrete case (used by replay and by known-finding witnesses)
// and Run drives the workload.
package checks

import (
	"fmt"
	"strings"

	"math/rand/v2"
	"sort"
	"verif/harness/ref"

	"verif/harness/core"
	"verif/harness/eco"
	"verif/harness/gen"
)

// Check is one property's machinery.
type Check struct {
	ID          string
	Rule        string   // how cases are generated and what makes one non-trivial
	Assumptions []string // trusted base
	MinEvals    int64    // event floor below which the run is inconclusive
	Run         func(c *core.Ctx)
	// Eval re-evaluates one concrete case and returns the violations it exhibits now.
	Eval func(c *core.Ctx, e *eco.Eco, op string, args []string) []core.Violation
}

// Registry maps property id to its check.
var Registry = map[string]*Check{}

func register(c *Check) {
	if a := ruleAddenda[c.ID]; a != "" {
		c.Rule += " " + a
	}
	c.Rule += " " + generatorAddendum
	Registry[c.ID] = c
}

// generatorAddendum describes what every pool / cluster generator additionally draws (gen/*.go).
const generatorAddendum = "Generators additionally draw: words, numbers (n-1, n, n+1, 2^n, 10^n), lengths, punctuation operators and CLI words that are LITERALS of the tree under test " +
	"(parsed at start-up, per ecosystem package); pairs of ordinary x.y.z texts that collide under FNV-1/FNV-1a 32, Adler-32, folded FNV-64 and texts whose java31/djb2/sdbm/FNV hash is " +
	"MinInt32, 0, MaxInt32, 0xFFFFFFFF; carry numbers (199, 2999), date/time-shaped numbers, log-uniform magnitudes, 2^k-1 / 2^k / 2^k+1 runs, UTF-8 and code-point boundaries, " +
	"strconv-only number spellings (+1, 0x1, 1e1, 1_0); alignment ladders (one dense neighbourhood with the first number lengthened by 1..17 digits); hash-like words with prefix relatives; " +
	"maven unique snapshots; Go pseudo-versions at boundary instants and with numeric base tags; two members joined by a blank-delimited connective; strings sampled from the regular expressions of " +
	"the ecosystem package and their relatives; literals of the tree that the baseline dictionary does not have (a later change introduced them) glued before / after / between members; " +
	"64-bit FNV collisions with common suffixes; identifier-kind families; trailing-zero relatives (1.1 / 1.10 / 1.100)."

var ruleAddenda = map[string]string{
	"C01": "Volume: per ecosystem 560 000 (thorough 2.2 M) distinct versions (counter written into a number slot / a word slot of accepted versions) are parsed and KEPT; then transitivity over kept objects (i, i+1, i+d) for d in {1,2,2^8,2^10..2^20 (+-1)}, kept object == fresh parse of its text, and the comparison matrix / String of 60 sentinels parsed before the volume is unchanged; 600 000 plain tuples with markers are kept and pairs that agree in a digest-like integer field of the parsed object (read by reflection) are compared; the volume is raised above size thresholds found as new number literals in the sources.",
	"C02": "Also: colliding-hash pairs used as consecutive bounds; OR of 3-5 spans over neighbouring bounds (overlapping / touching / one-class gap, shuffled); range volume: 300 000 (thorough 1.5 M) distinct single-comparator ranges parsed and kept and asked about the kept bounds next to their own; 16 sentinel range objects asked 64 questions, then 6 000 (60 000) further distinct versions, then the 64 again; AND lists of 8..40 exclusions, OR enumerations of 16..80 exact versions.",
	"C03": "Also: carry, date-shaped, log-uniform, source-literal and encoding-boundary numbers as components; calendar triples around a month end; deterministic sweep of every position of every arity over 2^e-1 / 2^e (e=1..31) and the encoding boundaries.",
	"C04": "Also: half of the ranges are first evaluated under another scheme (foreign-scheme pretouch); twin questions (the same two argument texts glued together, split 1-2 characters elsewhere) are asked right after the original and judged by the same oracle; rejected siblings (the same constraints plus one the ecosystem rejects; a rejected range that excludes the probe) are evaluated right before the question.",
	"C05": "Base components also from carry / date-shaped / log-uniform / source-literal numbers. Volume: 70 000 (thorough 1.1 M) distinct shorthand constraints parsed and used; the first 400 bases are judged against the table before and after, judgements that fail only afterwards are violations. Probes include every identifier-wise prefix of the base's pre-release; composer tilde / caret bases with a stability suffix.",
	"C06": "CLI: additionally every lower-case word of a string literal in cmd/*.go is tried as sub-command with every argument shape (no / one / several versions; a range with versions inside, outside, both). Hostile workload: Unicode sweep (~900 code points at the same position of sibling strings), punctuation literals of the sources around versions, new source literals glued to versions.",
	"C07": "Also lists of 65..257 elements, every other list drawn from one neighbourhood of the pool's sorted order, every fifth list one whole generator cluster.",
	"C15": "Also sort lists of 63..130 elements and every fifth argv re-written in a transport encoding (percent-encoding of comparators / of everything / lower-case hex, HTML entities, \\uXXXX, form encoding).",
	"C16": "Also: foreign-scheme pretouch (the same constraint text first under two other schemes) twin-question pretouch and rejected-sibling pretouch before the base spelling is evaluated; a base spelling that is rejected while a respelling is answered counts as a difference.",
	"C17": "Also two-point corruptions: a constraint slot, prefix or suffix made only of blanks other than the ASCII space (\\t \\n \\v \\f \\r U+0085 U+00A0 U+2003 U+2028 U+3000 U+FEFF NUL DEL); probes taken verbatim from the range; lists of 16..100 constraints with one operator throughout and one damaged entry.",
	"C18": "Also: directed length sweep (spellings of exactly n-2..n+1 bytes for every number literal 12<=n<=1100 of the sources) and ranges built from the sources' punctuation literals placed before / after / around a pool member cut to a shorter precision, the uncut member being a probe.",
	"C19": "Also: (a) cold-start children - 3 (thorough 12) fresh race-build processes per ecosystem whose FIRST library calls are made by 8 goroutines at once; (b) hot-object storm in the fast build - 16 goroutines inside ONE shared object (version, range, ecosystem value as parser, one VERS body under all schemes) with every result compared to the sequential answer; (c) volume - 560 000 distinct versions and 120 000 distinct ranges kept, sentinels and first questions re-asked; (d) a change of an operand's memory counts only when a caller can observe it (String / Compare / Contains differ from a fresh parse); (e) the cross-scheme history contains 4-8 constraint ranges and twin questions; (f) wide storm - 512 (thorough 2048) goroutines compare their own long siblings with GOMAXPROCS raised to 256.",
	"C20": "Also: every 12th range OBJECT answers 1 500 (thorough 20 000) further distinct versions between two passes over the pool; an answer that changes is a violation (membership depends on earlier questions); OR enumerations of 16..40 exact pool members.",
}

// Pool is a set of textually distinct accepted versions.
type Pool struct {
	Eco  *eco.Eco
	Strs []string
	Vers []eco.Ver
}

// Add parses s and adds it when accepted and new; reports acceptance.
func (p *Pool) Add(s string, seen map[string]bool) bool {
	if seen[s] {
		return true
	}
	v, err, pn := p.Eco.SafeNewVersion(s)
	if pn != nil || err != nil || v == nil {
		return false
	}
	seen[s] = true
	p.Strs = append(p.Strs, s)
	p.Vers = append(p.Vers, v)
	return true
}

// BuildPool builds a pool of about n accepted versions as a union of clusters and free draws.
func BuildPool(e *eco.Eco, r *rand.Rand, n int, w *core.W) *Pool {
	p := &Pool{Eco: e}
	seen := map[string]bool{}
	tries := 0
	if r.IntN(10) == 0 { // one dense neighbourhood at every alignment (gen.AlignLadder) fills this pool
		for _, s := range gen.AlignLadder(e.Name, r) {
			if len(p.Strs) >= n {
				break
			}
			tries++
			ok := p.Add(s, seen)
			countAcc(w, "gen/align-ladder", ok)
		}
	}
	for len(p.Strs) < n && tries < n*40 {
		if r.IntN(3) == 0 {
			for k := 0; k < 12 && len(p.Strs) < n; k++ {
				tries++
				ok := p.Add(gen.One(e.Name, r), seen)
				countAcc(w, "gen/one", ok)
			}
			continue
		}
		for _, s := range gen.Cluster(e.Name, r) {
			tries++
			ok := p.Add(s, seen)
			countAcc(w, "gen/cluster", ok)
			if len(p.Strs) >= n {
				break
			}
		}
	}
	return p
}

func countAcc(w *core.W, class string, ok bool) {
	if w == nil {
		return
	}
	if ok {
		w.Count("accepted:"+class, 1)
	} else {
		w.Count("rejected:"+class, 1)
	}
}

// SortedIdx returns pool indices sorted with the implementation's own Compare.
func (p *Pool) SortedIdx() []int {
	idx := make([]int, len(p.Vers))
	for i := range idx {
		idx[i] = i
	}
	sort.SliceStable(idx, func(a, b int) bool {
		c, pn := eco.SafeCompare(p.Vers[idx[a]], p.Vers[idx[b]])
		return pn == nil && c < 0
	})
	return idx
}

func sgn(x int) int {
	switch {
	case x < 0:
		return -1
	case x > 0:
		return 1
	}
	return 0
}

func itoa(i int) string { return fmt.Sprint(i) }

// evalWitnesses runs every known-finding witness of this property through Eval so that the
// KNOWN-FINDING line is printed deterministically at every seed (and disappears once repaired).
func evalWitnesses(c *core.Ctx, ck *Check) {
	for _, f := range c.Findings() {
		if f.Witness == nil || ck.Eval == nil {
			continue
		}
		e := eco.ByName(f.Witness.Eco)
		if e == nil && f.Witness.Eco != "" && f.Witness.Eco != "vers" && f.Witness.Eco != "cli" {
			continue
		}
		for _, v := range ck.Eval(c, e, f.Witness.Op, f.Witness.Args) {
			c.Report(v)
		}
	}
}

// C19Child is set by c19.go.
var C19Child func(args []string) int

// inheritedNonTransitive reports whether the implementation's order on strs is non-transitive ONLY because the
// upstream reference algorithm itself is: the reference (Maven ComparableVersion 3.8.7, libalpm vercmp; both are
// documented to be faithful targets by C12 resp. by the repository's vercmp-verified tests) gives the same sign
// as the implementation for every pair of strs, and the reference matrix is itself not a total preorder.
// A violation with that cause is a known finding ("inherited from the reference"); any difference between the
// implementation and the reference on the list makes this false, so other cycles are still reported.
func inheritedNonTransitive(e *eco.Eco, strs []string) bool {
	var refCmp func(a, b string) int
	switch e.Name {
	case "maven":
		// go-univers keeps (test-pinned) the alias meaning of a bare single-letter a / b / m; the reference gives
		// that meaning only when a digit follows, so bare letters are spelled out before asking the reference
		refCmp = func(a, b string) int {
			c, _ := ref.MavenCmp(mavenExpandBareAliases(strings.TrimSpace(a)), mavenExpandBareAliases(strings.TrimSpace(b)))
			return c
		}
	case "alpm":
		refCmp = func(a, b string) int { return ref.AlpmCmp(strings.TrimSpace(a), strings.TrimSpace(b)) }
	default:
		return false
	}
	n := len(strs)
	vs := make([]eco.Ver, n)
	for i, s := range strs {
		v, err, pn := e.SafeNewVersion(s)
		if pn != nil || err != nil || v == nil {
			return false
		}
		vs[i] = v
	}
	m := make([]int, n*n)
	for i := 0; i < n; i++ {
		for j := 0; j < n; j++ {
			c, pn := eco.SafeCompare(vs[i], vs[j])
			if pn != nil || sgn(c) != refCmp(strs[i], strs[j]) {
				return false
			}
			m[i*n+j] = sgn(c)
		}
	}
	for i := 0; i < n; i++ {
		for j := 0; j < n; j++ {
			for k := 0; k < n; k++ {
				if m[i*n+j] <= 0 && m[j*n+k] <= 0 && (m[i*n+k] > 0 || ((m[i*n+j] < 0 || m[j*n+k] < 0) && m[i*n+k] >= 0)) {
					return true
				}
			}
		}
	}
	return false
}

// mavenExpandBareAliases rewrites qualifier ITEMS that are exactly a, b or m (any case) to alpha, beta, milestone. An
// item is a maximal run of characters that are neither digits nor the separators '.' and '-' (ComparableVersion's
// tokenisation): "+b" is one item and no alias, "-b" is.
func mavenExpandBareAliases(s string) string {
	var out strings.Builder
	isL := func(c byte) bool { return !(c >= '0' && c <= '9') && c != '.' && c != '-' }
	for i := 0; i < len(s); {
		if !isL(s[i]) {
			out.WriteByte(s[i])
			i++
			continue
		}
		j := i
		for j < len(s) && isL(s[j]) {
			j++
		}
		run := s[i:j]
		if len(run) == 1 {
			switch run {
			case "a", "A":
				run = "alpha"
			case "b", "B":
				run = "beta"
			case "m", "M":
				run = "milestone"
			}
		}
		out.WriteString(run)
		i = j
	}
	return out.String()
}
