package checks

import (
	"fmt"
	"math/rand/v2"
	"os/exec"
	"path/filepath"
	"regexp"
	"strconv"
	"strings"

	"verif/harness/core"
	"verif/harness/eco"
	"verif/harness/gen"
	"verif/harness/ref"
)

// refSpec describes one reference-model comparison monitor (C08-C14).
type refSpec struct {
	eco     string
	domain  func(s string) bool                                     // the property's per-string validity filter
	cmp     func(a, b string) (sign int, rule string, claimed bool) // reference verdict; claimed=false => Unclaimed zone
	extra   func(r *rand.Rand) []string                             // directed cluster generator for this grammar
	vectors []string                                                // fixed strings present in the first pool of every run
}

// evalRefPair re-evaluates one pair against the model.
func evalRefPair(sp *refSpec, e *eco.Eco, a, b string) []core.Violation {
	if !sp.domain(a) || !sp.domain(b) {
		return nil
	}
	va, err, pn := e.SafeNewVersion(a)
	if pn != nil || err != nil || va == nil {
		return nil
	}
	vb, err, pn := e.SafeNewVersion(b)
	if pn != nil || err != nil || vb == nil {
		return nil
	}
	want, rule, claimed := sp.cmp(a, b)
	if !claimed {
		return nil
	}
	got, pn := eco.SafeCompare(va, vb)
	if pn != nil {
		return []core.Violation{{Eco: e.Name, Op: "compare", Args: []string{a, b}, Rule: "panic", Got: pn.Value}}
	}
	if sgn(got) != want {
		return []core.Violation{{Eco: e.Name, Op: "compare", Args: []string{a, b}, Rule: rule, Got: itoa(got), Want: itoa(want)}}
	}
	return nil
}

func runRef(c *core.Ctx, ck *Check, specs []*refSpec) {
	evalWitnesses(c, ck)
	pools := c.Scale(48, 1500)
	size := c.Scale(260, 420)
	type job struct {
		sp *refSpec
		k  int
	}
	var jobs []job
	for _, sp := range specs {
		for k := 0; k < pools; k++ {
			jobs = append(jobs, job{sp, k})
		}
	}
	// state that builds up (volume.go): runs first, so that the pools below are evaluated in a process whose tables,
	// rings and interning maps have already filled and wrapped
	c.Parallel(len(specs), func(w *core.W, i int) {
		sp := specs[i]
		for _, v := range volumeRun(c, w, eco.ByName(sp.eco), sp.domain, sp.cmp, func(a, b string) []core.Violation { return evalRefPair(sp, eco.ByName(sp.eco), a, b) }, "ref", c.Scale(560000, 2200000)) {
			w.Report(v)
		}
	})
	c.Parallel(len(jobs), func(w *core.W, i int) {
		j := jobs[i]
		sp := j.sp
		e := eco.ByName(sp.eco)
		r := c.Rand("refpool", sp.eco, itoa(j.k))
		p := &Pool{Eco: e}
		seen := map[string]bool{}
		if j.k == 0 {
			for _, s := range sp.vectors {
				p.Add(s, seen)
			}
		}
		if j.k == 3 {
			// every committed 64-bit FNV / CRC collision pair (gen/collide64.json) side by side
			for _, cp := range gen.CommittedCollisions() {
				for _, s := range []string{cp.A, cp.B} {
					if sp.eco == "golang" {
						s = "v" + s
					}
					if sp.domain(s) {
						p.Add(s, seen)
					}
				}
			}
			w.Count("committed_collision_pools", 1)
		}
		if j.k == 2 {
			// carry sweep: 1.<2^e-1 | 2^e | 2^e+1>.5 for e = 8..31 next to 2.0.3 and 1.0.7 (a carry out of a packed field,
			// or a truncated one, must not outweigh the earlier component)
			pre := ""
			if sp.eco == "golang" {
				pre = "v"
			}
			for _, s := range []string{"2.0.3", "1.0.7", "2.0.0", "1.1.5", "2", "2.5", "2.0", "1.5", "1"} {
				if sp.domain(pre + s) {
					p.Add(pre+s, seen)
				}
			}
			for ex := 8; ex <= 31; ex++ {
				for d := int64(-1); d <= 1; d++ {
					n := int64(1)<<ex + d
					for _, s := range []string{"1." + strconv.FormatInt(n, 10) + ".5", "1.1." + strconv.FormatInt(n, 10), "1." + strconv.FormatInt(n, 10)} {
						if sp.domain(pre + s) {
							p.Add(pre+s, seen)
						}
					}
				}
			}
			w.Count("carry_sweep_pools", 1)
		}
		for tries := 0; len(p.Strs) < size && tries < 200; tries++ {
			var batch []string
			switch {
			case j.k%8 == 5 && tries == 0:
				batch = gen.AlignLadder(sp.eco, r)
				w.Count("alignment_ladders", 1)
			case sp.extra != nil && r.IntN(2) == 0:
				batch = sp.extra(r)
			case r.IntN(2) == 0:
				batch = gen.Cluster(sp.eco, r)
			default:
				for k := 0; k < 12; k++ {
					batch = append(batch, gen.One(sp.eco, r))
				}
			}
			for _, s := range batch {
				if !sp.domain(s) {
					w.Count("filtered_out_of_domain", 1)
					continue
				}
				ok := p.Add(s, seen)
				countAcc(w, "in-domain", ok)
				if len(p.Strs) >= size {
					break
				}
			}
		}
		n := len(p.Vers)
		if j.k%2 == 1 && n > 0 {
			// "used" objects: before they are compared, the parsed versions of every other pool are passed through range
			// membership (grammar ranges, every comparator of the table and every operator-like literal of the sources
			// with a pool member - whole or cut to a shorter precision - as the bound) and through String(): an
			// operation that writes to its operand makes the comparisons below disagree with the model
			var ops []string
			for o := range CmpTable[sp.eco].ops {
				ops = append(ops, o)
			}
			sortStrings(ops)
			for k := 0; k < 24; k++ {
				var txt string
				switch k % 3 {
				case 0:
					txt = gen.RangeOne(sp.eco, r)
				case 1:
					txt = gen.SymRange(sp.eco, r, func() string { return boundFrom(p.Strs, r) })
				default:
					if len(ops) == 0 {
						continue
					}
					txt = ops[r.IntN(len(ops))] + boundFrom(p.Strs, r)
					if CmpTable[sp.eco].listOnly {
						txt += ","
					}
				}
				rg, err, pn := e.SafeNewRange(txt)
				if pn != nil || err != nil || rg == nil {
					continue
				}
				for x := 0; x < n; x++ {
					eco.SafeContains(rg, p.Vers[x])
				}
				w.Count("pre_use_contains_calls", int64(n))
			}
			w.Count("pools_with_used_objects", 1)
		}
		perRule := map[string]int{}
		for a := 0; a < n; a++ {
			for b := 0; b < n; b++ {
				if a == b {
					continue
				}
				want, rule, claimed := sp.cmp(p.Strs[a], p.Strs[b])
				if !claimed {
					w.Count("oracle:unclaimed", 1)
					continue
				}
				got, pn := eco.SafeCompare(p.Vers[a], p.Vers[b])
				w.Count("evaluations", 1)
				w.Count("rule:"+rule, 1)
				if a < b {
					w.NT(core.Hash64(sp.eco, p.Strs[a], p.Strs[b]))
				}
				if pn != nil || sgn(got) != want {
					w.Count("disagreements:"+sp.eco, 1)
					if perRule[rule] < 4 {
						perRule[rule]++
						vs := evalRefPair(sp, e, p.Strs[a], p.Strs[b])
						if len(vs) == 0 {
							// freshly parsed objects agree with the model; the pool's objects do not: their state was changed
							// by an earlier operation (range membership, String, or parsing of other versions)
							g := "panic"
							if pn == nil {
								g = itoa(got)
							}
							vs = []core.Violation{{Eco: e.Name, Op: "compare-used", Args: []string{p.Strs[a], p.Strs[b]}, Rule: "used-object:" + rule, Got: g, Want: itoa(want),
								Detail: "pool objects disagree with the model while fresh parses of the same texts agree"}}
						}
						for _, v := range vs {
							w.Report(v)
						}
					}
				}
			}
		}
		w.Count("events:Compare", int64(n*(n-1)))
		if n > 4 {
			w.Sample(map[string]any{"eco": sp.eco, "pool_size": n, "some_versions": p.Strs[:min(n, 10)]})
		}
	})
}

// calibModel names the calib/run.sh model whose executable reference (dpkg, packaging, maven-artifact,
// node-semver) is consulted at thorough tier when present in the image.
var calibModel = map[string]string{"C08": "semver", "C09": "pep440", "C10": "dpkg", "C12": "maven"}

// modelVsExecutable pushes a seed-determined sample of generator pairs through the executable reference. A
// disagreement is a defect of the MODEL (the oracle), never of go-univers: the run becomes inconclusive.
func modelVsExecutable(c *core.Ctx, id string) {
	m, ok := calibModel[id]
	if !ok || c.Quick() {
		return
	}
	n := "20000"
	if m == "dpkg" {
		n = "4000" // three process spawns per pair
	}
	cmd := exec.Command(filepath.Join(c.Dir, "calib", "run.sh"), m, n, strconv.FormatUint(c.Seed, 10))
	out, err := cmd.CombinedOutput()
	text := string(out)
	re := regexp.MustCompile(`pairs ([0-9]+) disagreements ([0-9]+)`)
	mm := re.FindStringSubmatch(text)
	if err != nil || mm == nil {
		c.Note("model_vs_executable", "skipped: reference executable for "+m+" not available or failed: "+trunc(text, 200))
		return
	}
	c.Note("model_vs_executable_pairs", mm[1])
	c.Note("model_vs_executable_disagreements", mm[2])
	if mm[2] != "0" {
		c.Inconclusive("reference model " + m + " disagrees with its executable on " + mm[2] + " of " + mm[1] + " pairs (oracle defect): " + trunc(text, 400))
	}
}

func mkRefCheck(id, rule string, assumptions []string, specs []*refSpec) *Check {
	ck := &Check{ID: id, Rule: rule, Assumptions: assumptions, MinEvals: 50000}
	ck.Run = func(c *core.Ctx) { runRef(c, ck, specs); modelVsExecutable(c, id) }
	ck.Eval = func(c *core.Ctx, e *eco.Eco, op string, args []string) []core.Violation {
		if e == nil || len(args) < 2 {
			return nil
		}
		for _, sp := range specs {
			if sp.eco == e.Name {
				if op == "volume" {
					v, _ := strconv.Atoi(args[1])
					return volumeRun(c, c.NewW(), e, sp.domain, sp.cmp, func(a, b string) []core.Violation { return evalRefPair(sp, e, a, b) }, args[0], v)
				}
				if op == "compare-used" {
					return nil // needs the pool's history; the replay file documents the observation
				}
				return evalRefPair(sp, e, args[0], args[1])
			}
		}
		return nil
	}
	return ck
}

const refRuleText = "pools of accepted in-domain versions (clusters, directed grammar generators, fixed vectors for every clause of the definition); " +
	"every ordered pair of each pool is compared by the implementation and by an independent reference model; the model names the deciding clause " +
	"(histogram in counters rule:*); a case is non-trivial when it is a distinct unordered pair of textually different in-domain versions (hashed, capped at 8M). " +
	"Volume first: 560 000 (thorough 2.2 M) distinct in-domain versions parsed and KEPT, kept objects at distances 1, 2, 2^8 .. 2^20 (+-1) and 60 sentinels parsed before the volume compared against the model afterwards; " +
	"every other pool passes its objects through range membership (grammar ranges, table comparators, punctuation literals of the sources) before comparing (used objects); every eighth pool is an alignment ladder"

// ---------------------------------------------------------------------------------------------

var hasUpper = regexp.MustCompile(`[A-Z]`)
var longDigits = regexp.MustCompile(`[0-9]{19,}`)

func init() {
	// C08 -------------------------------------------------------------------------------------
	semverExtra := func(ecoName string) func(r *rand.Rand) []string {
		return func(r *rand.Rand) []string {
			coreS := gen.Pick(r, "0", "1", "2", "10") + "." + gen.Pick(r, "0", "1", "9", "10") + "." + gen.Pick(r, "0", "1", "2", "11")
			pfx := ""
			if ecoName == "golang" {
				pfx = "v"
			}
			out := []string{pfx + coreS}
			// prefix-sharing identifier lists
			base := strings.Split(gen.SemverPre(r, 4), ".")
			for k := 0; k < 14; k++ {
				cut := r.IntN(len(base) + 1)
				ids := append([]string{}, base[:cut]...)
				for x := r.IntN(3); x > 0; x-- {
					ids = append(ids, gen.SemverPre(r, 1))
				}
				if len(ids) == 0 {
					continue
				}
				s := pfx + coreS + "-" + strings.Join(ids, ".")
				if ecoName == "nuget" {
					s = strings.ToLower(s)
				}
				out = append(out, s)
				if r.IntN(4) == 0 {
					out = append(out, s+"+b."+gen.Pick(r, "1", "x"))
				}
			}
			if ecoName == "golang" {
				for k := 0; k < 6; k++ {
					out = append(out, gen.GoPseudo(r))
				}
				out = append(out, "v"+coreS+"-0", "v"+coreS+"-pre", "v"+coreS+"-pre.0", "v"+coreS+"-0.20240101120000-abcdefabcdef",
					"v"+coreS+"-pre.0.20240101120000-abcdefabcdef", "v"+coreS+"-rc.2", "v"+coreS+"-rc.10", "v"+coreS+"-0.20240101120000-0123456789ab",
					"v"+coreS+"-0.20231231235959-ffffffffffff", "v"+coreS+"-pre.0.20231231235959-ffffffffffff", "v"+coreS+"-pre.1", "v"+coreS+"-1")
			}
			if ecoName == "nuget" && r.IntN(2) == 0 {
				out = append(out, coreS+"."+gen.Pick(r, "0", "1", "2"), coreS+".1-rc.1", gen.Pick(r, "1", "2")+"."+gen.Pick(r, "0", "1"), gen.Pick(r, "1", "2"))
			}
			return out
		}
	}
	semverDomain := func(ecoName string) func(s string) bool {
		return func(s string) bool {
			if longDigits.MatchString(s) {
				return false // identifiers up to 18 digits are claimed
			}
			if ecoName == "nuget" && hasUpper.MatchString(s) {
				return false
			}
			return true
		}
	}
	semverCmp := func(a, b string) (int, string, bool) {
		c, r := ref.SemverCmp(a, b)
		return c, r, true
	}
	vec := []string{"1.0.0", "1.0.0-alpha", "1.0.0-alpha.1", "1.0.0-alpha.beta", "1.0.0-beta", "1.0.0-beta.2", "1.0.0-beta.11", "1.0.0-rc.1",
		"1.0.0-rc.10", "1.0.0-rc.2", "1.0.0--5", "1.0.0-5", "1.0.0-1", "1.0.0-a.-5", "1.0.0-a.5", "1.0.0-a.b", "1.0.0-a-b", "1.0.0-A", "1.0.0-a", "1.0.0-0",
		"1.0.0-123456789012345678", "1.0.0-99", "1.0.0+build", "1.0.0-rc.1+build", "2.10.0", "2.9.0", "1.0.0--", "1.0.0-a.-", "1.0.0-a.0"}
	var c08 []*refSpec
	for _, n := range []string{"semver", "npm", "cargo", "hex", "golang", "nuget"} {
		v := vec
		if n == "golang" {
			v = nil
			for _, s := range vec {
				v = append(v, "v"+s)
			}
			v = append(v, "v1.0.0-0.20240101120000-abcdefabcdef", "v1.0.0-pre.0.20240101120000-abcdefabcdef", "v1.0.0-20240101120000-abcdefabcdef", "v1.0.0-pre", "v1.0.0-pre.0")
		}
		c08 = append(c08, &refSpec{eco: n, domain: semverDomain(n), cmp: semverCmp, extra: semverExtra(n), vectors: v})
	}
	ck08 := mkRefCheck("C08", refRuleText+"; plus, for the strict semver ecosystem, near-valid strings that SemVer 2.0.0 rejects must be rejected",
		[]string{"ref/semver.go transcribes semver.org section 11 and the published grammar regex; calibrated against node-semver compare on 178k pairs (0 disagreements)"}, c08)
	inner := ck08.Run
	ck08.Run = func(c *core.Ctx) { inner(c); runSemverStrict(c) }
	innerEval := ck08.Eval
	ck08.Eval = func(c *core.Ctx, e *eco.Eco, op string, args []string) []core.Violation {
		if op == "strict" {
			return evalSemverStrict(args[0])
		}
		return innerEval(c, e, op, args)
	}
	register(ck08)

	// C09 -------------------------------------------------------------------------------------
	pepExtra := func(r *rand.Rand) []string {
		base := ""
		if r.IntN(6) == 0 {
			base = gen.Pick(r, "0!", "1!", "2!")
		}
		n := 1 + r.IntN(4)
		var cs []string
		for i := 0; i < n; i++ {
			cs = append(cs, gen.Pick(r, "0", "0", "1", "1", "2", "10", "11"))
		}
		base += strings.Join(cs, ".")
		out := []string{base, base + ".0", base + ".0.0"}
		dot := func() string { return gen.Pick(r, "", ".") }
		for k := 0; k < 28; k++ {
			s := base
			if r.IntN(5) == 0 {
				s += ".0"
			}
			if r.IntN(2) == 0 {
				s += dot() + gen.Pick(r, "a", "b", "rc", "alpha", "beta", "c") + gen.Pick(r, "0", "1", "2", "10")
			}
			if r.IntN(3) == 0 {
				s += dot() + gen.Pick(r, "post", "rev", "r") + gen.Pick(r, "0", "1", "2", "10")
			}
			if r.IntN(3) == 0 {
				s += dot() + "dev" + gen.Pick(r, "0", "1", "2", "10")
			}
			if r.IntN(4) == 0 {
				s += "+" + gen.Pick(r, "abc", "1", "2", "10", "abc.1", "abc-2", "1.abc", "ABC", "a_b", "01", "1.0", "abc.10", "abc.2")
			}
			out = append(out, s)
		}
		return out
	}
	c09 := []*refSpec{{eco: "pypi", domain: func(s string) bool { return ref.PepParse(s) != nil && !longDigits.MatchString(s) },
		cmp: func(a, b string) (int, string, bool) { c, r, ok := ref.PepCmp(a, b); return c, r, ok }, extra: pepExtra,
		vectors: []string{"1.0", "1.0.dev1", "1.0a1", "1.0a1.dev1", "1.0b1", "1.0rc1", "1.0.post1", "1.0.post1.dev1", "1.0+abc", "1.0+1", "1.0+abc.1", "1!0.5", "1.0.0", "1.0c1", "1.0alpha1", "1.0.rev1", "1.0r1", "1.0a1.post1", "1.0.a1", "1.0+ABC", "1.0+abc.10", "1.0+abc.2", "2.0", "1.10", "1.9"}}}
	register(mkRefCheck("C09", refRuleText, []string{"ref/pep440.go transcribes packaging.version._cmpkey; calibrated against packaging 26.3 on 600k pairs (0 disagreements)"}, c09))

	// C10 -------------------------------------------------------------------------------------
	debExtra := func(r *rand.Rand) []string {
		base := gen.Pick(r, "1.0", "1", "2.3.4", "1.0.0", "0.9", "10")
		out := []string{base}
		tails := []string{"a", "+", ".", "~", "~~", "~a", "a0", "a1", "0", "00", ".0", "+b1", "~rc1", "-1", "-0", "-1~bpo1", "-1+b1", "+dfsg-1", "a~", ".a", "+a", "~+", "ab", "a.", "a+", "a~1",
			"99999999999999999999", "099999999999999999999", "100000000000000000000", ".99999999999999999999", ".0100000000000000000000", "-1-1", "-a-1", "-0-0", "+-1", "A", "Z", "z", "aA", "-+1", "-+0", "-+2", "-2", "-10", "-+10", "-+", "-+a", "-1+", "-0x1", "-1e1"}
		if r.IntN(3) == 0 { // same-length big-number neighbours in upstream and revision
			for _, bn := range gen.BigFamily(r, 5) {
				out = append(out, base+"."+bn, bn, base+"-"+bn, bn+"+b1", base+"."+bn+"~rc1")
			}
		}
		if r.IntN(4) == 0 { // equal-length runs of 20-90 digits that differ in one digit (head, middle, tail)
			for _, bn := range gen.LongRunFamily(r, 5) {
				out = append(out, base+"."+bn, bn, base+"-"+bn)
			}
		}
		for k := 0; k < 26; k++ {
			s := base + gen.Pick(r, tails...)
			if r.IntN(3) == 0 {
				s += gen.Pick(r, tails...)
			}
			if r.IntN(8) == 0 {
				s = gen.Pick(r, "0:", "1:", "2:") + s
			}
			out = append(out, s)
		}
		return out
	}
	c10 := []*refSpec{{eco: "debian", domain: ref.DpkgValid, cmp: func(a, b string) (int, string, bool) { c, r := ref.DpkgCmp(a, b); return c, r, true }, extra: debExtra,
		vectors: []string{"1.0", "1.0a", "1.0+", "1.0.", "1.0~", "1.0~~", "1.0~rc1", "1a", "1a0", "1a00", "1.0-0", "1.0-1", "1:1.0", "0:1.0", "1.00", "1.0.0", "1.01", "1.1",
			"99999999999999999999", "100000000000000000000", "099999999999999999999", "1.0-1-1", "1.0+dfsg-1", "1.0A", "1.0Z", "1.0z"}}}
	register(mkRefCheck("C10", refRuleText, []string{"ref/dpkg.go transcribes dpkg lib/dpkg/version.c verrevcmp/order; calibrated against dpkg --compare-versions (0 disagreements)"}, c10))

	// C11 -------------------------------------------------------------------------------------
	rpmValid := regexp.MustCompile(`^(?:[0-9]{1,9}:)?[0-9A-Za-z._+~^]+(?:-[0-9A-Za-z._+~^]*)?$`)
	rpmExtra := func(r *rand.Rand) []string {
		base := gen.Pick(r, "1.0", "1", "2.3.4", "1.0.0", "0.9", "10", "5.5p1")
		out := []string{base}
		tails := []string{"a", ".a", ".1", "1", "01", ".01", "^", "^git1", "^1", "~", "~rc1", "~rc1^git", "~~", "_1", "_", "+", "..1", "._1", "a1", "1a", ".rc1", "rc1", "^^", "~^", "^~",
			"-1", "-a", "-1.el8", "-", "-^", "-~", "99999999999999999999", ".99999999999999999999", ".099999999999999999999", "A", "Z", "z", ".", "+a", "_a", "a.", ".0", "00"}
		if r.IntN(3) == 0 { // same-length big-number neighbours in version and release
			for _, bn := range gen.BigFamily(r, 5) {
				out = append(out, base+"."+bn, bn, base+"-"+bn, bn+"^1", base+"."+bn+"~rc1")
			}
		}
		if r.IntN(4) == 0 { // equal-length runs of 20-90 digits that differ in one digit (head, middle, tail)
			for _, bn := range gen.LongRunFamily(r, 5) {
				out = append(out, base+"."+bn, bn, base+"-"+bn)
			}
		}
		for k := 0; k < 28; k++ {
			s := base + gen.Pick(r, tails...)
			if r.IntN(3) == 0 {
				s += gen.Pick(r, tails...)
			}
			if r.IntN(8) == 0 {
				s = gen.Pick(r, "0:", "1:", "2:") + s
			}
			out = append(out, s)
		}
		return out
	}
	var rpmV []string
	for _, v := range ref.RpmVectors {
		rpmV = append(rpmV, v[0], v[1])
	}
	c11 := []*refSpec{{eco: "rpm", domain: func(s string) bool { return rpmValid.MatchString(s) && strings.Count(s, "-") <= 1 },
		cmp: func(a, b string) (int, string, bool) { c, r := ref.RpmCmp(a, b); return c, r, true }, extra: rpmExtra, vectors: rpmV}}
	register(mkRefCheck("C11", refRuleText, []string{"ref/rpm.go transcribes rpm >= 4.15 rpmio/rpmvercmp.c; no rpm binary in this image, the model is anchored on 90 vectors of rpm's own tests/rpmvercmp.at (go test ./ref)"}, c11))

	// C12 -------------------------------------------------------------------------------------
	mvnExtra := func(r *rand.Rand) []string {
		var cs []string
		for i, n := 0, 1+r.IntN(4); i < n; i++ {
			cs = append(cs, gen.Pick(r, "0", "1", "1", "2", "5", "10", "0"))
		}
		base := strings.Join(cs, ".")
		out := []string{base, base + ".0", base + "-0", base + "-1", base + ".1", base + "-5", base + "-10"}
		quals := []string{"alpha", "beta", "milestone", "rc", "cr", "snapshot", "ga", "final", "release", "sp", "foo", "bar", "xyz", "ALPHA", "Beta", "RC", "SNAPSHOT", "Final", "SP", "Foo", "GA", "Release", "zzz", "aaa"}
		for k := 0; k < 30; k++ {
			q := gen.Pick(r, quals...)
			sep := gen.Pick(r, ".", "-")
			switch r.IntN(5) {
			case 0:
				out = append(out, base+sep+q)
			case 1:
				out = append(out, base+sep+q+gen.Pick(r, "0", "1", "2", "10"))
			case 2:
				out = append(out, base+sep+q+"."+gen.Pick(r, "0", "1", "2", "10"))
			case 3:
				out = append(out, base+sep+q+"-"+gen.Pick(r, "0", "1", "2", "10"))
			case 4:
				out = append(out, base+sep+gen.Pick(r, "a", "b", "m", "A", "B", "M")+gen.Pick(r, "0", "1", "2", "10"))
			}
		}
		return out
	}
	c12 := []*refSpec{{eco: "maven", domain: func(s string) bool { return gen.MavenConventional(s) && !longDigits.MatchString(s) },
		cmp: func(a, b string) (int, string, bool) { c, r := ref.MavenCmp(a, b); return c, r, true }, extra: mvnExtra,
		vectors: []string{"1", "1.0", "1-1", "1.0.1", "1.1", "1-foo", "1-sp", "1-5", "1.0-1", "1-alpha", "1-a1", "1-alpha-1", "1-rc", "1-cr", "1-ga", "1-final", "1-release", "1-SNAPSHOT", "1-sp1", "1-sp-1", "1.0-RC1", "1.0-rc-1", "1.0.RC1", "1.0-m1", "1.0-milestone-1", "1.0-b2", "1.0-beta-2", "1.foo", "1.0.0-foo", "1-1.0"}}}
	register(mkRefCheck("C12", refRuleText, []string{"ref/maven.go transcribes ComparableVersion (Maven 3.8.x); calibrated against maven-artifact 3.8.7 on 600k conventional-shape pairs (0 disagreements)"}, c12))

	// C13 -------------------------------------------------------------------------------------
	gemExtra := func(r *rand.Rand) []string {
		var cs []string
		for i, n := 0, 1+r.IntN(4); i < n; i++ {
			cs = append(cs, gen.Pick(r, "0", "1", "1", "2", "5", "10", "0"))
		}
		base := strings.Join(cs, ".")
		out := []string{base, base + ".0", base + ".1", base + ".0.1"}
		words := []string{"rc", "pre", "alpha", "beta", "a", "b", "dev", "x", "z"}
		for k := 0; k < 30; k++ {
			s := base
			for g := 1 + r.IntN(2); g > 0; g-- {
				w := gen.Pick(r, words...)
				switch r.IntN(6) {
				case 0:
					s += "." + w
				case 1:
					s += "." + w + gen.Pick(r, "0", "1", "2", "10")
				case 2:
					s += "." + w + "." + gen.Pick(r, "0", "1", "2", "10")
				case 3:
					s += "-" + w
				case 4:
					s += "-" + w + "." + gen.Pick(r, "0", "1", "2", "10")
				case 5:
					s += "-" + w + gen.Pick(r, "1", "2", "10")
				}
			}
			if r.IntN(6) == 0 {
				s += "." + gen.Pick(r, "0", "1", "2")
			}
			out = append(out, s)
		}
		return out
	}
	var gemV []string
	for _, v := range ref.GemVectors {
		if v[0] != "" {
			gemV = append(gemV, v[0], v[1])
		}
	}
	c13 := []*refSpec{{eco: "gem", domain: func(s string) bool {
		return ref.GemValid(s) && !hasUpper.MatchString(s) && !longDigits.MatchString(s) && strings.TrimSpace(s) == s
	},
		cmp: func(a, b string) (int, string, bool) { c, r := ref.GemCmp(a, b); return c, r, true }, extra: gemExtra, vectors: gemV}}
	register(mkRefCheck("C13", refRuleText, []string{"ref/gem.go transcribes Gem::Version (segments, canonical_segments, <=>); no ruby in this image, the model is anchored on vectors of rubygems' test_gem_version.rb (go test ./ref)"}, c13))

	// C14 -------------------------------------------------------------------------------------
	apkExtra := func(r *rand.Rand) []string {
		n := 1 + r.IntN(5)
		var cs []string
		for i := 0; i < n; i++ {
			cs = append(cs, gen.Pick(r, "0", "1", "1", "2", "9", "10", "100", "2147483647"))
		}
		var out []string
		sufs := []string{"alpha", "beta", "pre", "rc", "cvs", "svn", "git", "hg", "p"}
		for k := 0; k < 40; k++ {
			d := append([]string{}, cs...)
			if r.IntN(3) == 0 {
				d[r.IntN(n)] = gen.Pick(r, "0", "1", "2", "3", "9", "10", "11")
			}
			s := strings.Join(d, ".")
			if r.IntN(3) == 0 {
				s += gen.Pick(r, "a", "b", "z")
			}
			for g := r.IntN(4); g > 0; g-- {
				s += "_" + gen.Pick(r, sufs...) + gen.Pick(r, "", "", "1", "2", "10")
			}
			if r.IntN(3) == 0 {
				s += "-r" + gen.Pick(r, "0", "1", "2", "10")
			}
			out = append(out, s)
		}
		return out
	}
	apkDom := regexp.MustCompile(`^[0-9]+(?:\.[0-9]+){0,4}[a-z]?(?:_(?:alpha|beta|pre|rc|cvs|svn|git|hg|p)[0-9]*){0,3}(?:-r[0-9]+)?$`)
	c14 := []*refSpec{{eco: "alpine", domain: func(s string) bool { return apkDom.MatchString(s) && !longDigits.MatchString(s) },
		cmp: func(a, b string) (int, string, bool) {
			if !ref.ApkInDomain(a, b) {
				return 0, "", false
			}
			return ref.ApkCmp(a, b)
		}, extra: apkExtra,
		vectors: []string{"1.0", "1.1", "1.1a", "1.1b", "1.1_alpha", "1.1_alpha1", "1.1_beta", "1.1_pre", "1.1_rc", "1.1_cvs", "1.1_svn", "1.1_git", "1.1_hg", "1.1_p", "1.1_p1", "1.1_p1_p2", "1.1_p1_alpha", "1.1_rc1_p1", "1.1-r1", "1.1-r2", "1.1a_p1", "1.1a_git1", "1.1_p1-r1", "1.1_git1_p1"}}}
	register(mkRefCheck("C14", refRuleText+"; the oracle is the property's own sentence, Unclaimed where a transcription of apk-tools 2.12's token machine disagrees with it (zones z1-z3 of DESIGN.md)",
		[]string{"ref/apk.go: structural comparator for the property's sentence + transcription of apk-tools 2.12 version.c which reproduces all vectors of alpine/testdata/compare.txt (go test ./ref)"}, c14))
}

var _ = fmt.Sprint
