package checks

import (
	"sort"
	"strings"

	"verif/harness/eco"
	"verif/harness/ref"
)

// SchemeEco maps each supported VERS scheme name to the ecosystem that must evaluate it (C17).
var SchemeEco = map[string]string{"alpine": "alpine", "cargo": "cargo", "deb": "debian", "gem": "gem", "generic": "semver", "golang": "golang",
	"maven": "maven", "npm": "npm", "nuget": "nuget", "pypi": "pypi", "rpm": "rpm"}

// Schemes lists the scheme names in a fixed order.
var Schemes = []string{"alpine", "cargo", "deb", "gem", "generic", "golang", "maven", "npm", "nuget", "pypi", "rpm"}

type versCons struct {
	op  string
	txt string
	v   eco.Ver
}

// splitVersCons splits one constraint (whitespace already removed) into comparator and version.
func splitVersCons(c string) (op, ver string) {
	for _, o := range []string{">=", "<=", "!=", ">", "<", "="} {
		if strings.HasPrefix(c, o) {
			return o, c[len(o):]
		}
	}
	return "", c
}

// parseVersText parses "vers:<scheme>/<c1>|<c2>..." leniently (spaces stripped, empty constraints
// dropped). ok=false when the text is not of that overall shape.
func parseVersText(text string) (scheme string, cons []versCons, star bool, ok bool) {
	if !strings.HasPrefix(text, "vers:") {
		return "", nil, false, false
	}
	rest := text[5:]
	k := strings.IndexByte(rest, '/')
	if k < 0 {
		return "", nil, false, false
	}
	scheme = rest[:k]
	for _, c := range strings.Split(rest[k+1:], "|") {
		c = strings.Join(strings.Fields(c), "")
		c = strings.ReplaceAll(c, " ", "")
		if c == "" {
			continue
		}
		if c == "*" {
			star = true
			continue
		}
		op, v := splitVersCons(c)
		cons = append(cons, versCons{op: op, txt: v})
	}
	return scheme, cons, star, true
}

// versDenote decides membership of probe in the union-of-intervals denotation of cons under e's own
// Compare. wellFormed=false when the constraint set violates the VERS uniqueness / alternation rules
// (or a version does not parse) - then nothing is asserted.
func versDenote(e *eco.Eco, cons []versCons, probe eco.Ver) (in bool, wellFormed bool, rule string) {
	cs := make([]versCons, len(cons))
	copy(cs, cons)
	for i := range cs {
		if cs[i].op == "" || cs[i].txt == "" {
			return false, false, ""
		}
		v, err, pn := e.SafeNewVersion(cs[i].txt)
		if pn != nil || err != nil || v == nil {
			return false, false, ""
		}
		cs[i].v = v
	}
	if len(cs) == 0 {
		return false, false, ""
	}
	// pairwise distinct under Compare, and Compare must behave on this set
	for i := range cs {
		for j := range cs {
			c, pn := eco.SafeCompare(cs[i].v, cs[j].v)
			if pn != nil {
				return false, false, ""
			}
			if i != j && c == 0 {
				return false, false, ""
			}
			d, _ := eco.SafeCompare(cs[j].v, cs[i].v)
			if c != -d {
				return false, false, ""
			}
		}
	}
	sort.SliceStable(cs, func(a, b int) bool { c, _ := eco.SafeCompare(cs[a].v, cs[b].v); return c < 0 })
	for i := 0; i+1 < len(cs); i++ {
		for j := i + 1; j < len(cs); j++ {
			if c, _ := eco.SafeCompare(cs[i].v, cs[j].v); c >= 0 {
				return false, false, "" // not a strict chain (Compare not transitive here): C01's finding
			}
		}
	}
	// alternation of range comparators
	var rng []versCons
	for _, c := range cs {
		if c.op != "=" && c.op != "!=" {
			rng = append(rng, c)
		}
	}
	isLower := func(op string) bool { return op == ">" || op == ">=" }
	for i := 0; i+1 < len(rng); i++ {
		if isLower(rng[i].op) == isLower(rng[i+1].op) {
			return false, false, ""
		}
	}
	cmpP := func(c versCons) int { r, _ := eco.SafeCompare(probe, c.v); return sgn(r) }
	for _, c := range cs {
		if c.op == "!=" && cmpP(c) == 0 {
			return false, true, "vers/excluded-point"
		}
	}
	hasEq := false
	for _, c := range cs {
		if c.op == "=" {
			hasEq = true
			if cmpP(c) == 0 {
				return true, true, "vers/equal-point"
			}
		}
	}
	if len(rng) == 0 {
		if hasEq {
			return false, true, "vers/points-only"
		}
		return true, true, "vers/only-exclusions"
	}
	for i := 0; i < len(rng); i++ {
		c := rng[i]
		if !isLower(c.op) {
			if i == 0 { // leading upper bound: (-inf, x]
				r := cmpP(c)
				if r < 0 || (r == 0 && c.op == "<=") {
					return true, true, "vers/leading-upper-bound"
				}
			}
			continue
		}
		r := cmpP(c)
		if !(r > 0 || (r == 0 && c.op == ">=")) {
			continue
		}
		if i+1 == len(rng) {
			return true, true, "vers/trailing-lower-bound"
		}
		u := rng[i+1]
		ru := cmpP(u)
		if ru < 0 || (ru == 0 && u.op == "<=") {
			if len(rng) == 2 {
				return true, true, "vers/single-interval"
			}
			return true, true, "vers/inner-interval"
		}
	}
	if len(rng) == 1 {
		return false, true, "vers/single-comparator"
	}
	return false, true, "vers/outside-all-intervals"
}

// pypiPre: PEP 440 default - pre-/dev-release probes are excluded unless a constraint names one.
func pypiGate(cons []versCons, probe string) (gated bool, decidable bool) {
	p := ref.PepParse(probe)
	if p == nil {
		return false, false
	}
	if !p.IsPrerelease() {
		return false, true
	}
	for _, c := range cons {
		q := ref.PepParse(c.txt)
		if q == nil {
			return false, false
		}
		if q.IsPrerelease() {
			return false, true
		}
	}
	return true, true
}

// twinQuestions returns the (range, version) questions whose CONCATENATION equals that of (text, probe): one character
// (or two) moved across the boundary between the two arguments. A result table keyed on the two texts glued together
// without a separator confuses a question with its twins.
func twinQuestions(text, probe string) [][2]string {
	var out [][2]string
	for k := 1; k <= 2; k++ {
		if len(text) > k+8 && embeddableTail(text[len(text)-k:]) {
			out = append(out, [2]string{text[:len(text)-k], text[len(text)-k:] + probe})
		}
		if len(probe) > k && embeddableTail(probe[:k]) {
			out = append(out, [2]string{text + probe[:k], probe[k:]})
		}
	}
	return out
}

func embeddableTail(s string) bool {
	for i := 0; i < len(s); i++ {
		if !(s[i] >= '0' && s[i] <= '9' || s[i] >= 'a' && s[i] <= 'z' || s[i] == '.') {
			return false
		}
	}
	return true
}
