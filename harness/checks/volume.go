package checks

import (
	"math/rand/v2"
	"reflect"
	"strconv"
	"strings"

	"verif/harness/core"
	"verif/harness/eco"
	"verif/harness/gen"
)

// State that builds up. A memo table, an interning table, a ring of recycled objects or a pool is correct until it
// fills, wraps or evicts; every pool-sized workload stays below that point. The volume workload pushes V DISTINCT
// version strings (V > 2^18 at quick, > 2^21 at thorough) through the parser of one ecosystem in one process,
// KEEPS every parsed object, and only then compares:
//   - objects parsed at distance 1, 2^8, 2^10, 2^11, 2^12, 2^16, 2^17, 2^18, 2^20, 2^21 (+-1) from each other
//     (identifier wrap-around, recycled slots),
//   - the sentinel objects that were parsed BEFORE the volume (stale table entries, recycled objects),
//   - every kept object against a fresh parse of its own text.
// The strings are derived from accepted in-domain versions by writing the counter into one number slot or one word
// slot ("zz" + base-26 counter), so they are neighbours of each other and reach the deep comparison stages.

type volTemplate struct {
	pre, post string
	word      bool
	pad       int // > 0: the counter is written with exactly pad digits (fixed-width fields such as a 12-digit revision)
}

func (t volTemplate) at(i int) string {
	if t.word {
		return t.pre + "zz" + base26(i) + t.post
	}
	if t.pad > 0 {
		d := strconv.Itoa(i + 1)
		if len(d) < t.pad {
			d = strings.Repeat("0", t.pad-len(d)) + d
		}
		return t.pre + d + t.post
	}
	return t.pre + strconv.Itoa(i+1) + t.post
}

func base26(i int) string {
	b := []byte("aaaa")
	for k := len(b) - 1; k >= 0 && i > 0; k-- {
		b[k] = byte('a' + i%26)
		i /= 26
	}
	if i > 0 {
		return base26(i-1) + string(b)
	}
	return string(b)
}

var volOffsets = []int{1, 2, 255, 256, 257, 1023, 1024, 1025, 2047, 2048, 2049, 4095, 4096, 4097, 32768, 65535, 65536, 65537, 131072, 262143, 262144, 262145, 524288, 1048576, 2097152}

// volTemplates derives counter templates from accepted strings: the last digit run / the last alphabetic run is the slot.
func volTemplates(e *eco.Eco, domain func(string) bool, strs []string, r *rand.Rand, want int) []volTemplate {
	var out []volTemplate
	okT := func(t volTemplate) bool {
		for _, i := range []int{0, 1, 25, 26, 77777, 300000, 2500000} {
			s := t.at(i)
			if domain != nil && !domain(s) {
				return false
			}
			if v, err, pn := e.SafeNewVersion(s); pn != nil || err != nil || v == nil {
				return false
			}
		}
		return true
	}
	seen := map[string]bool{}
	wantWord := true
	for _, x := range r.Perm(len(strs)) {
		s := strs[x]
		if len(s) > 40 {
			continue
		}
		isD := func(c byte) bool { return c >= '0' && c <= '9' }
		isA := func(c byte) bool { return c >= 'a' && c <= 'z' || c >= 'A' && c <= 'Z' }
		cls := isD
		if wantWord {
			cls = isA
		}
		j := len(s)
		for j > 0 && !cls(s[j-1]) {
			j--
		}
		i := j
		for i > 0 && cls(s[i-1]) {
			i--
		}
		if i == j {
			continue
		}
		t := volTemplate{pre: s[:i], post: s[j:], word: wantWord}
		k := t.pre + "\x00" + t.post + strconv.FormatBool(t.word)
		if seen[k] {
			continue
		}
		seen[k] = true
		if okT(t) {
			out = append(out, t)
			wantWord = !wantWord
			if len(out) >= want {
				break
			}
		}
	}
	if len(out) < want { // whatever kind is available
		for _, x := range r.Perm(len(strs)) {
			s := strs[x]
			j := len(s)
			for j > 0 && !(s[j-1] >= '0' && s[j-1] <= '9') {
				j--
			}
			i := j
			for i > 0 && s[i-1] >= '0' && s[i-1] <= '9' {
				i--
			}
			if i == j || len(s) > 40 {
				continue
			}
			t := volTemplate{pre: s[:i], post: s[j:]}
			k := t.pre + "\x00" + t.post + "false"
			if !seen[k] && okT(t) {
				seen[k] = true
				out = append(out, t)
				if len(out) >= want {
					break
				}
			}
		}
	}
	return out
}

// volumeRun executes the volume workload for one ecosystem. cmp is the reference verdict (nil: only the laws that
// need no reference are checked: kept object == fresh parse of its text, and transitivity over (i, i+1, i+off)).
// Violations carry op "volume" and args [streamKey, V, detail...]; they are re-evaluated by re-running the workload.
func volumeRun(c *core.Ctx, w *core.W, e *eco.Eco, domain func(string) bool, cmp func(a, b string) (int, string, bool), pair func(a, b string) []core.Violation, key string, V int) []core.Violation {
	// a size threshold that a change wrote into this ecosystem's sources (a literal not in the baseline dictionary, e.g.
	// 1 << 20) raises the volume above it: each template must produce more distinct strings than the threshold
	if thr := gen.DeltaThreshold(e.Name, 100000, uint64(c.Scale(3000000, 20000000))); thr > 0 && uint64(V) < thr*23/10 {
		V = int(thr * 23 / 10)
		w.Count("volume_raised_above_new_source_literal:"+e.Name, int64(thr))
	}
	r := c.Rand("volume", e.Name, key)
	var out []core.Violation
	perRule := map[string]int{}
	rep := func(rule, got, want string, detail ...string) {
		if pair != nil && len(detail) >= 2 && strings.HasPrefix(rule, "after-volume:") && !strings.HasPrefix(rule, "after-volume:sentinel") && !strings.HasPrefix(rule, "after-volume:kept") {
			// the same pair parsed afresh: when it disagrees with the model too, this is an ordinary pair disagreement
			// (reported as such, so that known findings keyed on the pair apply), not an effect of the volume
			if vs := pair(detail[0], detail[1]); len(vs) > 0 {
				for _, v := range vs {
					if perRule["pair:"+v.Rule] < 2 {
						perRule["pair:"+v.Rule]++
						out = append(out, v)
					}
				}
				return
			}
		}
		if perRule[rule] < 3 {
			perRule[rule]++
			out = append(out, core.Violation{Eco: e.Name, Op: "volume", Args: append([]string{key, itoa(V)}, detail...), Rule: rule, Got: got, Want: want})
		}
	}
	// sentinels
	sent := &Pool{Eco: e}
	seen := map[string]bool{}
	for tries := 0; len(sent.Strs) < 60 && tries < 200; tries++ {
		for _, s := range gen.Cluster(e.Name, r) {
			if len(sent.Strs) < 60 && (domain == nil || domain(s)) && strings.TrimSpace(s) == s {
				sent.Add(s, seen)
			}
		}
	}
	if len(sent.Strs) < 6 {
		return nil
	}
	ns := len(sent.Strs)
	before := make([]int, ns*ns)
	for a := 0; a < ns; a++ {
		for b := 0; b < ns; b++ {
			cv, pn := eco.SafeCompare(sent.Vers[a], sent.Vers[b])
			if pn != nil {
				cv = 99
			}
			before[a*ns+b] = cv
		}
	}
	strBefore := make([]string, ns)
	fpBefore := make([]uint64, ns)
	for a := 0; a < ns; a++ {
		strBefore[a], _ = eco.SafeVString(sent.Vers[a])
		fpBefore[a] = fingerprint(sent.Vers[a].Raw())
	}
	tpls := volTemplates(e, domain, sent.Strs, r, 2)
	if len(tpls) == 0 {
		w.Count("volume_no_template:"+e.Name, 1)
		return nil
	}
	per := V / len(tpls)
	kept := make([][]eco.Ver, len(tpls))
	for ti, t := range tpls {
		kept[ti] = make([]eco.Ver, per)
		for i := 0; i < per; i++ {
			v, err, pn := e.SafeNewVersion(t.at(i))
			if pn == nil && err == nil && v != nil {
				kept[ti][i] = v
			}
			// a comparison right away, so that comparison-time tables fill as well
			if i > 0 && kept[ti][i] != nil && kept[ti][i-1] != nil {
				eco.SafeCompare(kept[ti][i-1], kept[ti][i])
			}
		}
		w.Count("volume_distinct_strings_parsed_and_kept", int64(per))
		w.Count("events:NewVersion", int64(per))
	}
	// field-guided pairs: integer fields of the parsed objects that look like digests (almost every kept object has its own
	// value) are read through reflection; two DIFFERENT kept versions with the same value in such a field are compared.
	// The field only GUIDES the search (a 32-bit digest collides ~10 times among 280 000 objects, and no all-pairs
	// comparison could find those pairs); the verdict is the reference model's / the order laws'.
	for ti, t := range tpls {
		for _, pr := range digestFieldPairs(kept[ti]) {
			i, j := pr[0], pr[1]
			a, b := kept[ti][i], kept[ti][j]
			got, pn := eco.SafeCompare(a, b)
			w.Count("evaluations", 1)
			w.Count("volume_digest_field_guided_pairs", 1)
			sa, sb := t.at(i), t.at(j)
			if pn != nil {
				rep("panic", pn.Value, "", sa, sb)
				continue
			}
			if cmp != nil {
				if want, rule, claimed := cmp(sa, sb); claimed && sgn(got) != want {
					rep("after-volume:"+rule, itoa(got), itoa(want), sa, sb, "same-digest-field")
				}
				continue
			}
			if got == 0 {
				// equal versions are interchangeable: both must stand in the same relation to their neighbours
				for _, k := range []int{i + 1, j + 1, i - 1, j - 1, (i + j) / 2} {
					if k < 0 || k >= per || k == i || k == j || kept[ti][k] == nil {
						continue
					}
					x, _ := eco.SafeCompare(a, kept[ti][k])
					y, _ := eco.SafeCompare(b, kept[ti][k])
					if x != y {
						if inheritedNonTransitive(e, []string{sa, sb, t.at(k)}) {
							break
						}
						rep("after-volume:transitivity", "cmp(a,b)=0 cmp(a,c)="+itoa(x)+" cmp(b,c)="+itoa(y), "a==b implies cmp(a,c)==cmp(b,c)", sa, sb, t.at(k), "same-digest-field")
						break
					}
				}
			}
		}
	}
	// the same search over plain tuples x.y.z (x < 60, y < 100, z < 100; thorough x < 300): counter templates differ in a
	// few trailing bytes only, which multiplicative digests map almost injectively; widely varying tuples collide at the
	// birthday rate (~40 pairs per 32-bit digest among 600 000)
	if key != "c19" {
		nx := c.Scale(60, 200)
		ms := gen.MarkerTable[e.Name]
		marks := []string{""}
		for _, m := range ms.Pre {
			if len(marks) < 3 {
				marks = append(marks, m)
			}
		}
		if len(ms.Post) > 0 {
			marks = append(marks, ms.Post[0])
		}
		nm := len(marks)
		tup := func(i int) string {
			t := i / nm
			s := itoa(t/10000) + "." + itoa(t/100%100) + "." + itoa(t%100) + marks[i%nm]
			if e.Name == "golang" {
				return "v" + s
			}
			return s
		}
		tk := make([]eco.Ver, nx*10000*nm)
		okN := 0
		for i := range tk {
			if s := tup(i); domain == nil || domain(s) {
				if v, err, pn := e.SafeNewVersion(s); pn == nil && err == nil && v != nil {
					tk[i] = v
					okN++
				}
			}
		}
		w.Count("volume_plain_tuples_parsed_and_kept", int64(okN))
		for _, pr := range digestFieldPairs(tk) {
			i, j := pr[0], pr[1]
			got, pn := eco.SafeCompare(tk[i], tk[j])
			w.Count("evaluations", 1)
			w.Count("volume_digest_field_guided_pairs", 1)
			if pn != nil {
				rep("panic", pn.Value, "", tup(i), tup(j))
				continue
			}
			// plain tuples: the integer tuple order is every ecosystem's order for them (C03), i < j
			want := -1
			if cmp != nil {
				if wv, rule, claimed := cmp(tup(i), tup(j)); claimed && sgn(got) != wv {
					rep("after-volume:"+rule, itoa(got), itoa(wv), tup(i), tup(j), "same-digest-field")
				}
				continue
			}
			if got == 0 && i != j {
				x, _ := eco.SafeCompare(tk[i], tk[(i+j)/2])
				y, _ := eco.SafeCompare(tk[j], tk[(i+j)/2])
				if x != y && tk[(i+j)/2] != nil {
					rep("after-volume:transitivity", "cmp(a,b)=0 cmp(a,c)="+itoa(x)+" cmp(b,c)="+itoa(y), "a==b implies cmp(a,c)==cmp(b,c)", tup(i), tup(j), tup((i+j)/2), "same-digest-field")
				}
			}
			_ = want
		}
	}
	sample := c.Scale(6000, 40000)
	for ti, t := range tpls {
		for _, off := range volOffsets {
			if off >= per {
				continue
			}
			for n := 0; n < sample; n++ {
				i := r.IntN(per - off)
				if n < 64 { // the oldest objects always
					i = n
					if i >= per-off {
						break
					}
				}
				a, b := kept[ti][i], kept[ti][i+off]
				if a == nil || b == nil {
					continue
				}
				got, pn := eco.SafeCompare(a, b)
				w.Count("evaluations", 1)
				w.Count("volume_pair_comparisons", 1)
				w.NT(core.Hash64("volume", e.Name, itoa(ti), itoa(off), itoa(i%97)))
				sa, sb := t.at(i), t.at(i+off)
				if pn != nil {
					rep("panic", pn.Value, "", sa, sb)
					continue
				}
				if cmp != nil {
					if want, rule, claimed := cmp(sa, sb); claimed && sgn(got) != want {
						rep("after-volume:"+rule, itoa(got), itoa(want), sa, sb, "offset="+itoa(off))
					}
				} else if i+1 < i+off && kept[ti][i+1] != nil {
					// transitivity over (i, i+1, i+off)
					m := kept[ti][i+1]
					ab, _ := eco.SafeCompare(a, m)
					bc, _ := eco.SafeCompare(m, b)
					if ab <= 0 && bc <= 0 && (got > 0 || (got == 0 && (ab < 0 || bc < 0))) ||
						ab >= 0 && bc >= 0 && (got < 0 || (got == 0 && (ab > 0 || bc > 0))) {
						if inheritedNonTransitive(e, []string{sa, t.at(i + 1), sb}) {
							w.Count("volume_inherited_triples", 1)
							continue
						}
						rep("after-volume:transitivity", "cmp(a,b)="+itoa(ab)+" cmp(b,c)="+itoa(bc)+" cmp(a,c)="+itoa(got), "a<=b<=c implies a<=c", sa, t.at(i+1), sb, "offset="+itoa(off))
					}
				}
				if n < 400 { // kept object vs a fresh parse of its own text
					if f, err, pn := e.SafeNewVersion(sa); pn == nil && err == nil && f != nil {
						if cv, pn := eco.SafeCompare(a, f); pn != nil || cv != 0 {
							rep("after-volume:kept-object-differs-from-fresh-parse", itoa(cv), "0", sa, "offset="+itoa(off))
						}
					}
				}
			}
		}
	}
	// sentinels after the volume
	for a := 0; a < ns; a++ {
		for b := 0; b < ns; b++ {
			cv, pn := eco.SafeCompare(sent.Vers[a], sent.Vers[b])
			if pn != nil {
				cv = 99
			}
			w.Count("evaluations", 1)
			if cv != before[a*ns+b] {
				rep("after-volume:sentinel-comparison-changed", itoa(cv), itoa(before[a*ns+b]), sent.Strs[a], sent.Strs[b])
			}
			if cmp != nil && pn == nil {
				if want, rule, claimed := cmp(sent.Strs[a], sent.Strs[b]); claimed && sgn(cv) != want {
					rep("after-volume:"+rule, itoa(cv), itoa(want), sent.Strs[a], sent.Strs[b], "sentinel")
				}
			}
		}
		if f, err, pn := e.SafeNewVersion(sent.Strs[a]); pn == nil && err == nil && f != nil {
			if cv, pn := eco.SafeCompare(sent.Vers[a], f); pn != nil || cv != 0 {
				rep("after-volume:kept-object-differs-from-fresh-parse", itoa(cv), "0", sent.Strs[a], "sentinel")
			}
		}
		if st, _ := eco.SafeVString(sent.Vers[a]); st != strBefore[a] {
			rep("after-volume:sentinel-string-changed", st, strBefore[a], sent.Strs[a], "sentinel")
		}
		if fp := fingerprint(sent.Vers[a].Raw()); fp != fpBefore[a] {
			// not a violation by itself (what callers can observe is checked above); evidence only
			w.Count("volume_sentinel_memory_changed", 1)
		}
	}
	var names []string
	for _, t := range tpls {
		names = append(names, t.at(0)+" .. "+t.at(per-1))
	}
	w.Sample(map[string]any{"eco": e.Name, "volume": V, "templates": names, "sentinels": ns})
	return out
}

var _ = rand.IntN

// volumeRanges is the range-side volume workload (C02): V distinct single-comparator ranges (every comparator spelling
// of the table in turn, bound = counter template) are parsed and KEPT together with their bounds; afterwards kept
// ranges are asked about the kept bounds next to their own (i-1, i, i+1) and the answers are compared with the truth
// table over the implementation's own Compare. Bound caches, parsed-range memo tables and recycled range objects are
// correct until they fill.
func volumeRanges(c *core.Ctx, w *core.W, e *eco.Eco, syn cmpSyntax, key string, V int) []core.Violation {
	if thr := gen.DeltaThreshold(e.Name, 100000, uint64(c.Scale(3000000, 20000000))); thr > 0 && uint64(V) < thr*23/10 {
		V = int(thr * 23 / 10)
		w.Count("volume_raised_above_new_source_literal:"+e.Name, int64(thr))
	}
	r := c.Rand("volume-ranges", e.Name, key)
	var out []core.Violation
	perRule := map[string]int{}
	sent := &Pool{Eco: e}
	seen := map[string]bool{}
	for tries := 0; len(sent.Strs) < 60 && tries < 200; tries++ {
		for _, s := range gen.Cluster(e.Name, r) {
			if len(sent.Strs) < 60 && boundOK(e.Name, s) && embeddable(s) {
				sent.Add(s, seen)
			}
		}
	}
	tpls := volTemplates(e, func(s string) bool { return boundOK(e.Name, s) }, sent.Strs, r, 2)
	if len(tpls) == 0 {
		w.Count("volume_no_template:"+e.Name, 1)
		return nil
	}
	var spell []string
	for s := range syn.ops {
		spell = append(spell, s)
	}
	sortStrings(spell)
	per := V / len(tpls)
	for ti, t := range tpls {
		vers := make([]eco.Ver, per)
		rngs := make([]eco.Rng, per)
		text := func(i int) (string, string) {
			sp := spell[i%len(spell)]
			txt := sp + t.at(i)
			if syn.listOnly {
				txt += ","
			}
			return txt, sp
		}
		for i := 0; i < per; i++ {
			if v, err, pn := e.SafeNewVersion(t.at(i)); pn == nil && err == nil && v != nil {
				vers[i] = v
			}
			txt, _ := text(i)
			if g, err, pn := e.SafeNewRange(txt); pn == nil && err == nil && g != nil {
				rngs[i] = g
				if vers[i] != nil { // a membership call right away, so that call-time tables fill as well
					eco.SafeContains(g, vers[i])
				}
			}
		}
		if ti == 0 {
			// one range OBJECT asked about many distinct versions (per-object result tables): sentinel ranges - grammar
			// ranges and OR-joined comparator pairs - answer 64 first questions, then 6000 (thorough 60000) further
			// distinct versions, then the first questions again: same answers as before and as a fresh parse of the range
			nq := c.Scale(6000, 60000)
			if nq > per {
				nq = per
			}
			for k := 0; k < 16; k++ {
				var txt string
				switch k % 4 {
				case 0, 1:
					txt = gen.RangeOne(e.Name, r)
				case 2:
					if len(syn.or) > 0 {
						a, b := r.IntN(per), r.IntN(per)
						txt = spell[r.IntN(len(spell))] + t.at(a) + syn.or[r.IntN(len(syn.or))] + spell[r.IntN(len(spell))] + t.at(b)
					} else {
						txt = gen.RangeOne(e.Name, r)
					}
				default:
					txt, _ = text(r.IntN(per))
				}
				g, err, pn := e.SafeNewRange(txt)
				if pn != nil || err != nil || g == nil {
					continue
				}
				firstQ := make([]int, 0, 64)
				firstA := make([]bool, 0, 64)
				for q := 0; q < 64; q++ {
					i := r.IntN(per)
					if vers[i] == nil {
						continue
					}
					a, _ := eco.SafeContains(g, vers[i])
					firstQ, firstA = append(firstQ, i), append(firstA, a)
				}
				for i := 0; i < nq; i++ {
					if vers[i] != nil {
						eco.SafeContains(g, vers[i])
					}
				}
				w.Count("volume_questions_to_one_range_object", int64(nq))
				f, _, _ := e.SafeNewRange(txt)
				for q, i := range firstQ {
					a, pn := eco.SafeContains(g, vers[i])
					w.Count("evaluations", 1)
					bad := pn != nil || a != firstA[q]
					if !bad && f != nil {
						if fa, _ := eco.SafeContains(f, vers[i]); fa != a {
							bad = true
						}
					}
					if bad && perRule["object"] < 3 {
						perRule["object"]++
						out = append(out, core.Violation{Eco: e.Name, Op: "volume-ranges", Args: []string{key, itoa(V), txt, t.at(i)}, Rule: "after-volume:range-object-answers-differently-after-many-questions", Got: b2s(a), Want: b2s(firstA[q]),
							Detail: "the same range object was asked about " + itoa(nq) + " other versions in between"})
					}
				}
			}
		}
		w.Count("volume_distinct_ranges_parsed_and_kept", int64(per))
		w.Count("events:NewVersionRange", int64(per))
		sample := c.Scale(30000, 200000)
		for n := 0; n < sample; n++ {
			i := 1 + r.IntN(per-2)
			if n < 2048 {
				i = 1 + n%(per-2) // the oldest objects always
			}
			if rngs[i] == nil {
				continue
			}
			txt, sp := text(i)
			for _, j := range []int{i - 1, i, i + 1} {
				if vers[j] == nil || vers[i] == nil {
					continue
				}
				cv, pn := eco.SafeCompare(vers[j], vers[i])
				if pn != nil {
					continue
				}
				want := sat(syn.ops[sp], cv)
				got, pn := eco.SafeContains(rngs[i], vers[j])
				w.Count("evaluations", 1)
				w.Count("volume_range_memberships", 1)
				w.NT(core.Hash64("volume-range", e.Name, itoa(ti), sp, itoa(j-i), itoa(i%97)))
				if pn != nil || got != want {
					args := []string{txt, t.at(j), sp, t.at(i)}
					if vs := evalC02(c, e, "cmp-range", args); len(vs) > 0 {
						for _, v := range vs {
							if perRule["pair:"+v.Rule+sp] < 2 {
								perRule["pair:"+v.Rule+sp]++
								out = append(out, v)
							}
						}
						continue
					}
					if perRule[sp] < 2 {
						perRule[sp]++
						g := "panic"
						if pn == nil {
							g = b2s(got)
						}
						out = append(out, core.Violation{Eco: e.Name, Op: "volume-ranges", Args: []string{key, itoa(V), txt, t.at(j)}, Rule: "after-volume:kept-range-answers-differently", Got: g, Want: b2s(want),
							Detail: "the kept range object disagrees with the truth table while a fresh parse of the same range agrees"})
					}
				}
			}
		}
	}
	return out
}

// digestFieldPairs returns index pairs of kept objects that agree in an integer field which takes (almost) as many
// distinct values as there are objects.
func digestFieldPairs(kept []eco.Ver) [][2]int {
	var first eco.Ver
	for _, v := range kept {
		if v != nil {
			first = v
			break
		}
	}
	if first == nil {
		return nil
	}
	rv := reflect.ValueOf(first.Raw())
	for rv.Kind() == reflect.Ptr || rv.Kind() == reflect.Interface {
		if rv.IsNil() {
			return nil
		}
		rv = rv.Elem()
	}
	if rv.Kind() != reflect.Struct {
		return nil
	}
	var out [][2]int
	for f := 0; f < rv.NumField(); f++ {
		k := rv.Field(f).Kind()
		isU := k == reflect.Uint32 || k == reflect.Uint64 || k == reflect.Uint || k == reflect.Uint16
		isI := k == reflect.Int32 || k == reflect.Int64 || k == reflect.Int
		if !isU && !isI {
			continue
		}
		seen := make(map[uint64]int32, len(kept))
		var pairs [][2]int
		n := 0
		for i, v := range kept {
			if v == nil {
				continue
			}
			ev := reflect.ValueOf(v.Raw())
			for ev.Kind() == reflect.Ptr || ev.Kind() == reflect.Interface {
				ev = ev.Elem()
			}
			var val uint64
			if isU {
				val = ev.Field(f).Uint()
			} else {
				val = uint64(ev.Field(f).Int())
			}
			n++
			if j, ok := seen[val]; ok {
				if len(pairs) < 4000 {
					pairs = append(pairs, [2]int{int(j), i})
				}
			} else {
				seen[val] = int32(i)
			}
		}
		// a digest-like field: at least 9 of 10 objects have their own value, yet some share one
		if n > 1000 && len(seen)*10 >= n*9 && len(pairs) > 0 {
			out = append(out, pairs...)
		}
	}
	return out
}

// c06Volume: totality under volume. V distinct well-formed versions per ecosystem (for golang two thirds of them distinct
// pseudo-versions, whose recognition is the expensive path) go through NewVersion and, every 64th, through a range;
// a panic is a violation. V follows size thresholds found as new literals in the sources (bytes budgets divided by a
// typical length of 32).
func c06Volume(c *core.Ctx, w *core.W, e *eco.Eco) []core.Violation {
	V := c.Scale(400000, 2500000)
	if thr := gen.DeltaThreshold(e.Name, 100000, uint64(c.Scale(100000000, 1000000000))); thr > 0 {
		need := int(thr / 12) // a budget in bytes: half of the strings, ~35 bytes each, fill it after ~thr/17 entries
		if thr < 5000000 {
			need = int(thr * 12 / 10)
		}
		if need > V {
			V = min(need, c.Scale(6000000, 40000000))
			w.Count("volume_raised_above_new_source_literal:"+e.Name, int64(thr))
		}
	}
	r := c.Rand("c06-volume", e.Name)
	sent := &Pool{Eco: e}
	seen := map[string]bool{}
	for tries := 0; len(sent.Strs) < 40 && tries < 200; tries++ {
		for _, s := range gen.Cluster(e.Name, r) {
			if len(sent.Strs) < 40 && strings.TrimSpace(s) == s {
				sent.Add(s, seen)
			}
		}
	}
	tpls := volTemplates(e, nil, sent.Strs, r, 2)
	if e.Name == "golang" {
		tpls = append(tpls, volTemplate{pre: "v1.10.1-0.20220620093000-", pad: 12}, volTemplate{pre: "v0.0.0-20240101120000-", pad: 12})
	}
	if len(tpls) == 0 {
		return nil
	}
	var out []core.Violation
	rg, _, _ := e.SafeNewRange(">=1.0.0")
	for i := 0; i < V; i++ {
		t := tpls[i%len(tpls)]
		s := t.at(i / len(tpls))
		v, _, pn := e.SafeNewVersion(s)
		if pn != nil {
			out = append(out, core.Violation{Eco: e.Name, Op: "NewVersion", Args: []string{s}, Rule: "panic", Got: pn.Value, Detail: "after " + itoa(i) + " distinct well-formed versions in this process: " + trunc(pn.Stack, 1200)})
			if len(out) >= 2 {
				break
			}
			continue
		}
		if v != nil && rg != nil && i%64 == 0 {
			if _, pn := eco.SafeContains(rg, v); pn != nil {
				out = append(out, core.Violation{Eco: e.Name, Op: "Contains", Args: []string{">=1.0.0", s}, Rule: "panic", Got: pn.Value, Detail: "after " + itoa(i) + " distinct versions: " + trunc(pn.Stack, 1200)})
				break
			}
		}
	}
	w.Count("evaluations", int64(V))
	w.Count("volume_distinct_versions_parsed:"+e.Name, int64(V))
	return out
}
