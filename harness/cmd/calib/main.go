// calib prints generator-produced pairs with the reference model's verdict, one per line:
// a<TAB>b<TAB>sign. Used by /verif/calib/*.sh to compare the models with executables that happen
// to exist in this image (dpkg, packaging, maven-artifact, node-semver). Dev-time only.
package main

import (
	"bufio"
	"fmt"
	"os"
	"strconv"

	"verif/harness/core"
	"verif/harness/gen"
	"verif/harness/ref"
)

func main() {
	model := os.Args[1]
	n, _ := strconv.Atoi(os.Args[2])
	seed := uint64(1)
	if len(os.Args) > 3 {
		s, _ := strconv.ParseUint(os.Args[3], 10, 64)
		seed = s
	}
	r := core.Rand(seed, "calib", model)
	w := bufio.NewWriter(os.Stdout)
	defer w.Flush()
	ecoOf := map[string]string{"dpkg": "debian", "pep440": "pypi", "maven": "maven", "semver": "semver"}[model]
	var pool []string
	for k := 0; k < n; {
		if len(pool) < 2 {
			pool = gen.Cluster(ecoOf, r)
			for i := 0; i < 10; i++ {
				pool = append(pool, gen.One(ecoOf, r))
			}
		}
		a, b := pool[r.IntN(len(pool))], pool[r.IntN(len(pool))]
		if r.IntN(8) == 0 {
			pool = nil
		}
		switch model {
		case "dpkg":
			if !ref.DpkgValid(a) || !ref.DpkgValid(b) {
				continue
			}
			c, _ := ref.DpkgCmp(a, b)
			fmt.Fprintf(w, "%s\t%s\t%d\n", a, b, c)
		case "pep440":
			c, _, ok := ref.PepCmp(a, b)
			if !ok {
				continue
			}
			fmt.Fprintf(w, "%s\t%s\t%d\n", a, b, c)
		case "maven":
			if !gen.MavenConventional(a) || !gen.MavenConventional(b) {
				continue
			}
			c, _ := ref.MavenCmp(a, b)
			fmt.Fprintf(w, "%s\t%s\t%d\n", a, b, c)
		case "semver":
			if !ref.SemverValid(a) || !ref.SemverValid(b) {
				continue
			}
			c, _ := ref.SemverCmp(a, b)
			fmt.Fprintf(w, "%s\t%s\t%d\n", a, b, c)
		}
		k++
	}
}
