// collide64 searches collisions of 64-bit FNV-1a / FNV-1 among plain four-component versions a.b.c.d (components < 65536)
// with parallel Pollard-rho walks and distinguished points, and prints them as JSON (gen/collide64.json). One pair per
// hash function takes ~2^32.5 hash evaluations (well under a minute on 16 cores). Usage: collide64 <pairs-per-hash>
package main

import (
	"encoding/json"
	"fmt"
	"math/rand/v2"
	"os"
	"strconv"
	"sync"
)

type pair struct {
	Hash string `json:"hash"`
	A    string `json:"a"`
	B    string `json:"b"`
}

func render(x uint64, buf []byte) []byte {
	buf = buf[:0]
	buf = strconv.AppendUint(buf, x>>48&0xffff, 10)
	buf = append(buf, '.')
	buf = strconv.AppendUint(buf, x>>32&0xffff, 10)
	buf = append(buf, '.')
	buf = strconv.AppendUint(buf, x>>16&0xffff, 10)
	buf = append(buf, '.')
	buf = strconv.AppendUint(buf, x&0xffff, 10)
	return buf
}

func fnv64a(b []byte) uint64 {
	h := uint64(14695981039346656037)
	for _, c := range b {
		h ^= uint64(c)
		h *= 1099511628211
	}
	return h
}

func fnv64(b []byte) uint64 {
	h := uint64(14695981039346656037)
	for _, c := range b {
		h *= 1099511628211
		h ^= uint64(c)
	}
	return h
}

type trail struct {
	start uint64
	n     uint32
}

func search(name string, h func([]byte) uint64, want int) []pair {
	const dpMask = 1<<22 - 1
	var mu sync.Mutex
	dps := map[uint64]trail{}
	var found []pair
	done := make(chan struct{})
	var once sync.Once
	step := func(x uint64, buf []byte) uint64 { return h(render(x, buf)) }
	locate := func(a, b trail) {
		buf1, buf2 := make([]byte, 0, 32), make([]byte, 0, 32)
		x, y := a.start, b.start
		na, nb := a.n, b.n
		for na > nb {
			x = step(x, buf1)
			na--
		}
		for nb > na {
			y = step(y, buf2)
			nb--
		}
		if x == y {
			return
		}
		for i := uint32(0); i < na; i++ {
			nx, ny := step(x, buf1), step(y, buf2)
			if nx == ny {
				mu.Lock()
				found = append(found, pair{name, string(render(x, buf1)), string(render(y, buf2))})
				if len(found) >= want {
					once.Do(func() { close(done) })
				}
				mu.Unlock()
				return
			}
			x, y = nx, ny
		}
	}
	var wg sync.WaitGroup
	for g := 0; g < 16; g++ {
		wg.Add(1)
		go func(g int) {
			defer wg.Done()
			r := rand.New(rand.NewPCG(uint64(g)+1, 99))
			buf := make([]byte, 0, 32)
			for {
				select {
				case <-done:
					return
				default:
				}
				start := r.Uint64()
				x := start
				var n uint32
				for n = 0; n < 1<<26; n++ {
					if x&dpMask == 0 && n > 0 {
						break
					}
					x = step(x, buf)
				}
				if x&dpMask != 0 {
					continue
				}
				mu.Lock()
				prev, ok := dps[x]
				if !ok {
					dps[x] = trail{start, n}
				}
				mu.Unlock()
				if ok && prev.start != start {
					locate(prev, trail{start, n})
				}
			}
		}(g)
	}
	wg.Wait()
	return found
}

func main() {
	want := 2
	if len(os.Args) > 1 {
		want, _ = strconv.Atoi(os.Args[1])
	}
	var all []pair
	for _, f := range []struct {
		name string
		h    func([]byte) uint64
	}{{"fnv64a", fnv64a}, {"fnv64", fnv64}} {
		ps := search(f.name, f.h, want)
		for _, p := range ps {
			if f.h([]byte(p.A)) != f.h([]byte(p.B)) || p.A == p.B {
				fmt.Fprintln(os.Stderr, "bogus pair", p)
				continue
			}
			all = append(all, p)
		}
	}
	b, _ := json.MarshalIndent(all, "", " ")
	fmt.Println(string(b))
}
