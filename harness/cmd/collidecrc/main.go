// collidecrc constructs pairs of plain dotted versions with the same CRC (CRC-64 ECMA / ISO, CRC-32 IEEE / Castagnoli).
// A CRC is affine over GF(2): flipping a fixed set of message bits changes the checksum by a fixed vector, so Gaussian
// elimination over the 3 low bits of 24 digit positions (digits stay in 0..7) finds a set of flips that changes nothing.
package main

import (
	"encoding/json"
	"fmt"
	"hash/crc32"
	"hash/crc64"
	"math/rand/v2"
)

type pair struct {
	Hash string `json:"hash"`
	A    string `json:"a"`
	B    string `json:"b"`
}

func construct(name string, sum func([]byte) uint64, comps, digits int, r *rand.Rand) (pair, bool) {
	// message: comps components of `digits` digits, first digit of each fixed (1..7), the rest free
	var msg []byte
	var free []int
	for c := 0; c < comps; c++ {
		if c > 0 {
			msg = append(msg, '.')
		}
		msg = append(msg, byte('1'+r.IntN(7)))
		for d := 1; d < digits; d++ {
			free = append(free, len(msg))
			msg = append(msg, byte('0'+r.IntN(8)))
		}
	}
	base := sum(msg)
	type col struct {
		vec  uint64
		mask []uint64 // which columns were combined (bitset over all columns)
	}
	ncol := len(free) * 3
	words := (ncol + 63) / 64
	var basis []col // reduced columns with distinct leading bits
	for ci := 0; ci < ncol; ci++ {
		m := append([]byte{}, msg...)
		m[free[ci/3]] ^= 1 << (ci % 3)
		v := sum(m) ^ base
		mk := make([]uint64, words)
		mk[ci/64] |= 1 << (ci % 64)
		for _, b := range basis {
			lead := uint64(1) << (63 - leadingZeros(b.vec))
			if v&lead != 0 {
				v ^= b.vec
				for w := range mk {
					mk[w] ^= b.mask[w]
				}
			}
		}
		if v == 0 {
			// dependency found: flip every column in mk
			out := append([]byte{}, msg...)
			for k := 0; k < ncol; k++ {
				if mk[k/64]>>(k%64)&1 == 1 {
					out[free[k/3]] ^= 1 << (k % 3)
				}
			}
			if string(out) != string(msg) && sum(out) == base {
				return pair{name, string(msg), string(out)}, true
			}
			return pair{}, false
		}
		basis = append(basis, col{v, mk})
	}
	return pair{}, false
}

func leadingZeros(x uint64) int {
	n := 0
	for i := 63; i >= 0; i-- {
		if x>>uint(i)&1 == 1 {
			return n
		}
		n++
	}
	return 64
}

func main() {
	r := rand.New(rand.NewPCG(7, 11))
	ecma, iso := crc64.MakeTable(crc64.ECMA), crc64.MakeTable(crc64.ISO)
	cast := crc32.MakeTable(crc32.Castagnoli)
	fns := []struct {
		name string
		f    func([]byte) uint64
	}{
		{"crc64-ecma", func(b []byte) uint64 { return crc64.Checksum(b, ecma) }},
		{"crc64-iso", func(b []byte) uint64 { return crc64.Checksum(b, iso) }},
		{"crc32-ieee", func(b []byte) uint64 { return uint64(crc32.ChecksumIEEE(b)) }},
		{"crc32c", func(b []byte) uint64 { return uint64(crc32.Checksum(b, cast)) }},
	}
	var all []pair
	for _, f := range fns {
		for _, shape := range [][2]int{{4, 7}, {3, 9}, {3, 9}, {4, 7}} {
			for tries := 0; tries < 20; tries++ {
				if p, ok := construct(f.name, f.f, shape[0], shape[1], r); ok {
					all = append(all, p)
					break
				}
			}
		}
	}
	b, _ := json.MarshalIndent(all, "", " ")
	fmt.Println(string(b))
}
