// verifmon runs one property's check:  verifmon <ID> <quick|thorough> | verifmon <ID> --replay <file>
package main

import (
	"fmt"
	"os"
	"strconv"

	"verif/harness/checks"
	"verif/harness/core"
	"verif/harness/eco"
	"verif/harness/gen"
)

func main() {
	if len(os.Args) < 3 {
		fmt.Fprintln(os.Stderr, "usage: verifmon <ID> <quick|thorough> | verifmon <ID> --replay <file>")
		os.Exit(2)
	}
	id := os.Args[1]
	ck := checks.Registry[id]
	if ck == nil && id != "DICT" {
		fmt.Printf("INCONCLUSIVE property=%s reason=no such check\n", id)
		os.Exit(3)
	}
	seed := uint64(1)
	if s := os.Getenv("VERIF_SEED"); s != "" {
		if n, err := strconv.ParseUint(s, 10, 64); err == nil {
			seed = n
		}
	}
	repo := os.Getenv("VERIF_REPO")
	if repo == "" {
		repo = "/repo"
	}
	gen.LoadDictionary(repo)
	if id == "DICT" { // verifmon DICT dump: the baseline file for gen/baseline_dict.json
		os.Stdout.Write(gen.DumpDictionary())
		return
	}
	// the hash-collision pairs are enumerated (or read from .build/) before any monitored call is made and before
	// child processes are started, so that the enumeration never runs next to a CPU-budgeted call
	gen.CollidingPairs("")
	gen.CollidingPairs("v")
	gen.HashExtremes("")
	gen.HashExtremes("v")
	dir := os.Getenv("VERIF_DIR")
	if dir == "" {
		dir = "/verif"
	}
	if id == "C06" && os.Args[2] == "--child" {
		os.Exit(checks.C06Child(os.Args[3:]))
	}
	if id == "C19" && os.Args[2] == "--child" {
		os.Exit(checks.C19Child(os.Args[3:]))
	}
	if os.Args[2] == "--replay" {
		if len(os.Args) < 4 {
			os.Exit(2)
		}
		os.Exit(replay(ck, dir, seed, os.Args[3]))
	}
	tier := os.Args[2]
	c, err := core.NewCtx(id, tier, seed, dir)
	if err != nil {
		fmt.Printf("INCONCLUSIVE property=%s reason=%v\n", id, err)
		os.Exit(3)
	}
	if w := os.Getenv("VERIF_WORKERS"); w != "" {
		if n, err := strconv.Atoi(w); err == nil && n > 0 {
			c.Workers = n
		}
	}
	dw, dn := gen.DictSizes()
	c.Note("source_dictionary", map[string]int{"words": dw, "numbers": dn})
	c.Note("source_dictionary_not_in_baseline", gen.DeltaSizes())
	ck.Run(c)
	os.Exit(c.Finish(ck.Rule, ck.Assumptions, ck.MinEvals))
}

func replay(ck *checks.Check, dir string, seed uint64, path string) int {
	rf, err := core.LoadReplay(path)
	if err != nil {
		fmt.Printf("INCONCLUSIVE property=%s reason=%v\n", ck.ID, err)
		return 3
	}
	c, err := core.NewCtx(ck.ID, "replay", seed, dir)
	if err != nil {
		fmt.Printf("INCONCLUSIVE property=%s reason=%v\n", ck.ID, err)
		return 3
	}
	bad := 0
	for _, w := range rf.Witnesses {
		vs := ck.Eval(c, eco.ByName(w.Eco), w.Op, w.Args)
		if len(vs) > 0 {
			bad++
			fmt.Printf("REPRODUCED %s %s %q rule=%s got=%s want=%s\n", w.Eco, w.Op, w.Args, vs[0].Rule, vs[0].Got, vs[0].Want)
		} else {
			fmt.Printf("not reproduced %s %s %q\n", w.Eco, w.Op, w.Args)
		}
	}
	if bad > 0 {
		fmt.Printf("VIOLATION property=%s replay=%s\n", ck.ID, path)
		return 1
	}
	return 0
}
