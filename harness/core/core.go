// Package core holds what every check shares: seeded PRNG streams, per-worker statistics, the
// violation reporter with known-finding matching, evidence and replay writers.
package core

import (
	"crypto/sha1"
	"encoding/hex"
	"encoding/json"
	"fmt"
	"hash/fnv"
	"math/rand/v2"
	"os"
	"path/filepath"
	"regexp"
	"runtime"
	"sort"
	"strings"
	"sync"
	"time"
)

// ---------------------------------------------------------------------------------------------
// PRNG

// Rand returns a PCG stream determined by (seed, labels...).
func Rand(seed uint64, labels ...string) *rand.Rand {
	h := fnv.New64a()
	for _, l := range labels {
		h.Write([]byte(l))
		h.Write([]byte{0})
	}
	return rand.New(rand.NewPCG(seed*0x9E3779B97F4A7C15+1, h.Sum64()))
}

// Pick returns a random element.
func Pick[T any](r *rand.Rand, xs []T) T { return xs[r.IntN(len(xs))] }

// Hash64 hashes strings into a 64-bit key.
func Hash64(parts ...string) uint64 {
	h := fnv.New64a()
	for _, p := range parts {
		h.Write([]byte(p))
		h.Write([]byte{0xff})
	}
	return h.Sum64()
}

// ---------------------------------------------------------------------------------------------
// Violations and known findings

// Violation is one refuting observation. (Eco, Op, Args) re-create the case; Rule names the law or
// the reference-model clause that decided it.
type Violation struct {
	Prop   string   `json:"property"`
	Eco    string   `json:"eco"`
	Op     string   `json:"op"`
	Args   []string `json:"args"`
	Rule   string   `json:"rule,omitempty"`
	Got    string   `json:"got,omitempty"`
	Want   string   `json:"want,omitempty"`
	Detail string   `json:"detail,omitempty"`
}

func (v Violation) key() string {
	return v.Prop + "\x00" + v.Eco + "\x00" + v.Op + "\x00" + v.Rule + "\x00" + strings.Join(v.Args, "\x01")
}

// Finding is one entry of known_findings.json.
type Finding struct {
	ID          string   `json:"id"`
	Prop        string   `json:"property"`
	Eco         string   `json:"eco,omitempty"`
	Op          string   `json:"op,omitempty"`
	Args        []string `json:"args,omitempty"` // anchored regexes, one per argument (missing = any)
	Symmetric   bool     `json:"symmetric,omitempty"`
	AnyArg      string   `json:"any_arg,omitempty"` // anchored regex that at least one argument must match
	Rule        string   `json:"rule,omitempty"`    // anchored regex on the deciding rule
	What        string   `json:"what"`
	Witness     *Witness `json:"witness,omitempty"`
	WhyNotFixed string   `json:"why_not_fixed,omitempty"`

	argRe  []*regexp.Regexp
	ruleRe *regexp.Regexp
	anyRe  *regexp.Regexp
}

// Witness is a concrete failing case, runnable through a property's Eval.
type Witness struct {
	Eco  string   `json:"eco"`
	Op   string   `json:"op"`
	Args []string `json:"args"`
}

// FindingsFile is the committed known-findings file.
type FindingsFile struct {
	Findings []*Finding `json:"findings"`
	Fixed    []string   `json:"fixed"`
}

func (f *Finding) compile() error {
	for _, a := range f.Args {
		re, err := regexp.Compile(`^(?s:` + a + `)$`)
		if err != nil {
			return fmt.Errorf("finding %s: %v", f.ID, err)
		}
		f.argRe = append(f.argRe, re)
	}
	if f.AnyArg != "" {
		re, err := regexp.Compile(`^(?s:` + f.AnyArg + `)$`)
		if err != nil {
			return fmt.Errorf("finding %s: %v", f.ID, err)
		}
		f.anyRe = re
	}
	if f.Rule != "" {
		re, err := regexp.Compile(`^(?:` + f.Rule + `)$`)
		if err != nil {
			return fmt.Errorf("finding %s: %v", f.ID, err)
		}
		f.ruleRe = re
	}
	return nil
}

func (f *Finding) matchArgs(args []string) bool {
	for i, re := range f.argRe {
		if i >= len(args) || !re.MatchString(args[i]) {
			return false
		}
	}
	return true
}

// Matches reports whether v is an instance of this finding.
func (f *Finding) Matches(v *Violation) bool {
	if f.Prop != v.Prop {
		return false
	}
	if f.Eco != "" && f.Eco != v.Eco {
		return false
	}
	if f.Op != "" && f.Op != v.Op {
		return false
	}
	if f.ruleRe != nil && !f.ruleRe.MatchString(v.Rule) {
		return false
	}
	if f.anyRe != nil {
		ok := false
		for _, a := range v.Args {
			if f.anyRe.MatchString(a) {
				ok = true
			}
		}
		if !ok {
			return false
		}
	}
	if f.matchArgs(v.Args) {
		return true
	}
	if f.Symmetric && len(v.Args) >= 2 {
		sw := append([]string{v.Args[1], v.Args[0]}, v.Args[2:]...)
		return f.matchArgs(sw)
	}
	return false
}

// LoadFindings reads known_findings.json (missing file = no findings).
func LoadFindings(path string) (*FindingsFile, error) {
	ff := &FindingsFile{}
	b, err := os.ReadFile(path)
	if err != nil {
		if os.IsNotExist(err) {
			return ff, nil
		}
		return nil, err
	}
	if err := json.Unmarshal(b, ff); err != nil {
		return nil, err
	}
	for _, f := range ff.Findings {
		if err := f.compile(); err != nil {
			return nil, err
		}
	}
	return ff, nil
}

// ---------------------------------------------------------------------------------------------
// Run context

// Ctx is one run of one check.
type Ctx struct {
	Prop    string
	Tier    string // quick | thorough
	Seed    uint64
	Dir     string // /verif
	Workers int
	Start   time.Time

	findings []*Finding

	mu        sync.Mutex
	counters  map[string]int64
	distinct  map[uint64]struct{}
	samples   []any
	unknown   map[string]*Violation // by key
	unknownN  int64
	knownHits map[string]int64
	knownEx   map[string]*Violation
	incon     []string
	notes     map[string]any
}

// NewCtx builds a context; findings are loaded from <dir>/known_findings.json.
func NewCtx(prop, tier string, seed uint64, dir string) (*Ctx, error) {
	ff, err := LoadFindings(filepath.Join(dir, "known_findings.json"))
	if err != nil {
		return nil, err
	}
	c := &Ctx{Prop: prop, Tier: tier, Seed: seed, Dir: dir, Workers: runtime.NumCPU(), Start: time.Now(),
		counters: map[string]int64{}, distinct: map[uint64]struct{}{}, unknown: map[string]*Violation{},
		knownHits: map[string]int64{}, knownEx: map[string]*Violation{}, notes: map[string]any{}}
	for _, f := range ff.Findings {
		if f.Prop == prop {
			c.findings = append(c.findings, f)
		}
	}
	return c, nil
}

// Findings returns this property's known findings.
func (c *Ctx) Findings() []*Finding { return c.findings }

// Quick reports whether this is the quick tier.
func (c *Ctx) Quick() bool { return c.Tier != "thorough" }

// Scale returns q at quick tier and t at thorough tier.
func (c *Ctx) Scale(q, t int) int {
	if c.Quick() {
		return q
	}
	return t
}

// Rand returns the PRNG stream for labels under this run's seed and property.
func (c *Ctx) Rand(labels ...string) *rand.Rand {
	return Rand(c.Seed, append([]string{c.Prop}, labels...)...)
}

// W is worker-local statistics; merged into the Ctx by Merge.
type W struct {
	c        *Ctx
	counters map[string]int64
	distinct map[uint64]struct{}
	samples  []any
}

// NewW creates worker-local statistics.
func (c *Ctx) NewW() *W {
	return &W{c: c, counters: map[string]int64{}, distinct: map[uint64]struct{}{}}
}

// Count adds n to a named counter.
func (w *W) Count(name string, n int64) { w.counters[name] += n }

// NT records one distinct non-trivial case key.
func (w *W) NT(key uint64) {
	if len(w.distinct) < 4_000_000 {
		w.distinct[key] = struct{}{}
	}
}

// Sample keeps up to a few sample cases.
func (w *W) Sample(s any) {
	if len(w.samples) < 6 {
		w.samples = append(w.samples, s)
	}
}

// Report records a violation (thread-safe).
func (w *W) Report(v Violation) { w.c.Report(v) }

// Merge folds worker statistics into the context.
func (w *W) Merge() {
	c := w.c
	c.mu.Lock()
	defer c.mu.Unlock()
	for k, n := range w.counters {
		c.counters[k] += n
	}
	for k := range w.distinct {
		if len(c.distinct) < 8_000_000 {
			c.distinct[k] = struct{}{}
		}
	}
	for _, s := range w.samples {
		if len(c.samples) < 12 {
			c.samples = append(c.samples, s)
		}
	}
	w.counters = map[string]int64{}
	w.distinct = map[uint64]struct{}{}
	w.samples = nil
}

// Note stores an arbitrary evidence value.
func (c *Ctx) Note(k string, v any) {
	c.mu.Lock()
	c.notes[k] = v
	c.mu.Unlock()
}

// Inconclusive records a reason for an inconclusive verdict.
func (c *Ctx) Inconclusive(reason string) {
	c.mu.Lock()
	c.incon = append(c.incon, reason)
	c.mu.Unlock()
}

// Report records a violation, matching it against the known findings.
func (c *Ctx) Report(v Violation) {
	v.Prop = c.Prop
	c.mu.Lock()
	defer c.mu.Unlock()
	for _, f := range c.findings {
		if f.Matches(&v) {
			c.knownHits[f.ID]++
			if _, ok := c.knownEx[f.ID]; !ok {
				vv := v
				c.knownEx[f.ID] = &vv
			}
			return
		}
	}
	c.unknownN++
	k := v.key()
	if _, ok := c.unknown[k]; !ok && len(c.unknown) < 5000 {
		vv := v
		c.unknown[k] = &vv
	}
}

// Parallel runs fn(i) for i in [0,n) on c.Workers goroutines, each with its own W.
func (c *Ctx) Parallel(n int, fn func(w *W, i int)) {
	workers := c.Workers
	if workers > n {
		workers = n
	}
	if workers < 1 {
		workers = 1
	}
	var wg sync.WaitGroup
	var next int64
	var mu sync.Mutex
	for k := 0; k < workers; k++ {
		wg.Add(1)
		go func() {
			defer wg.Done()
			w := c.NewW()
			defer w.Merge()
			for {
				mu.Lock()
				i := int(next)
				next++
				mu.Unlock()
				if i >= n {
					return
				}
				fn(w, i)
			}
		}()
	}
	wg.Wait()
}

// ---------------------------------------------------------------------------------------------
// Finish: evidence, replay files, verdict lines, exit status

type evidence struct {
	PropertyID  string         `json:"property_id"`
	Tier        string         `json:"tier"`
	Seed        int64          `json:"seed"`
	Level       string         `json:"level"`
	Coverage    map[string]any `json:"coverage"`
	Assumptions []string       `json:"assumptions"`
	WallS       float64        `json:"wall_s"`
	Violations  int64          `json:"violations"`
}

// Finish writes evidence and replay files, prints verdict lines and returns the exit status
// (0 held, 1 violated, 3 inconclusive).
func (c *Ctx) Finish(rule string, assumptions []string, minEvals int64) int {
	c.mu.Lock()
	defer c.mu.Unlock()

	evals := c.counters["evaluations"]
	cov := map[string]any{
		"evaluations":         evals,
		"distinct_nontrivial": len(c.distinct),
		"rule":                rule,
		"samples":             c.samples,
		"exhaustive":          false,
	}
	cnt := map[string]int64{}
	for k, v := range c.counters {
		if k != "evaluations" {
			cnt[k] = v
		}
	}
	cov["counters"] = cnt
	for k, v := range c.notes {
		cov[k] = v
	}
	kf := map[string]any{}
	for id, n := range c.knownHits {
		kf[id] = map[string]any{"hits": n, "example": c.knownEx[id]}
	}
	cov["known_findings_hit"] = kf
	cov["inconclusive"] = c.incon
	if len(c.samples) == 0 {
		cov["samples"] = []any{"(no sample recorded)"}
	}

	// group unknown violations by (eco, op, rule) and write one replay file per group
	groups := map[string][]*Violation{}
	for _, v := range c.unknown {
		g := v.Eco + "|" + v.Op + "|" + v.Rule
		groups[g] = append(groups[g], v)
	}
	var gkeys []string
	for g := range groups {
		gkeys = append(gkeys, g)
	}
	sort.Strings(gkeys)
	var lines []string
	for _, g := range gkeys {
		vs := groups[g]
		sort.Slice(vs, func(i, j int) bool {
			li, lj := 0, 0
			for _, a := range vs[i].Args {
				li += len(a)
			}
			for _, a := range vs[j].Args {
				lj += len(a)
			}
			if li != lj {
				return li < lj
			}
			return vs[i].key() < vs[j].key()
		})
		if len(vs) > 25 {
			vs = vs[:25]
		}
		sum := sha1.Sum([]byte(c.Prop + g))
		dir := filepath.Join(c.Dir, "replays", c.Prop)
		os.MkdirAll(dir, 0o755)
		path := filepath.Join(dir, hex.EncodeToString(sum[:6])+".json")
		b, _ := json.MarshalIndent(map[string]any{"property": c.Prop, "group": g, "seed": c.Seed, "tier": c.Tier,
			"total_in_group": len(groups[g]), "witnesses": vs}, "", " ")
		os.WriteFile(path, b, 0o644)
		first := vs[0]
		lines = append(lines, fmt.Sprintf("VIOLATION property=%s replay=%s  # %s %s rule=%s args=%q got=%s want=%s (%d in group)",
			c.Prop, path, first.Eco, first.Op, first.Rule, first.Args, first.Got, first.Want, len(groups[g])))
	}

	status := 0
	if c.unknownN > 0 {
		status = 1
	} else if len(c.incon) > 0 || evals < minEvals {
		status = 3
		if evals < minEvals {
			c.incon = append(c.incon, fmt.Sprintf("only %d evaluations observed, floor is %d", evals, minEvals))
			cov["inconclusive"] = c.incon
		}
	}

	ev := evidence{PropertyID: c.Prop, Tier: c.Tier, Seed: int64(c.Seed), Level: "exploration", Coverage: cov,
		Assumptions: assumptions, WallS: time.Since(c.Start).Seconds(), Violations: c.unknownN}
	if ev.Tier != "thorough" {
		ev.Tier = "quick"
	}
	b, _ := json.MarshalIndent(ev, "", " ")
	evDir := filepath.Join(c.Dir, "evidence")
	if d := os.Getenv("VERIF_EVIDENCE_DIR"); d != "" {
		evDir = d // runs against a scratch tree (VERIF_REPO) never touch the committed evidence
	}
	os.MkdirAll(evDir, 0o755)
	os.WriteFile(filepath.Join(evDir, c.Prop+".json"), b, 0o644)

	// known findings: one line per entry that was observed
	var ids []string
	for id := range c.knownHits {
		ids = append(ids, id)
	}
	sort.Strings(ids)
	for _, id := range ids {
		var what string
		for _, f := range c.findings {
			if f.ID == id {
				what = f.What
			}
		}
		ex := c.knownEx[id]
		fmt.Printf("KNOWN-FINDING: property=%s %s: %s (observed %d times, e.g. %s %s %q)\n", c.Prop, id, what, c.knownHits[id], ex.Eco, ex.Op, ex.Args)
	}
	for _, l := range lines {
		fmt.Println(l)
	}
	switch status {
	case 0:
		fmt.Printf("HELD property=%s tier=%s seed=%d evaluations=%d distinct_nontrivial=%d known_findings=%d wall=%.1fs\n",
			c.Prop, c.Tier, c.Seed, evals, len(c.distinct), len(ids), time.Since(c.Start).Seconds())
	case 1:
		fmt.Printf("VIOLATED property=%s unknown_violations=%d groups=%d\n", c.Prop, c.unknownN, len(gkeys))
	case 3:
		fmt.Printf("INCONCLUSIVE property=%s reason=%s\n", c.Prop, strings.Join(c.incon, "; "))
	}
	return status
}

// UnknownCount returns the number of unknown violations so far.
func (c *Ctx) UnknownCount() int64 {
	c.mu.Lock()
	defer c.mu.Unlock()
	return c.unknownN
}

// ReplayFile is the on-disk format of a replay file.
type ReplayFile struct {
	Property  string      `json:"property"`
	Witnesses []Violation `json:"witnesses"`
}

// LoadReplay reads a replay file.
func LoadReplay(path string) (*ReplayFile, error) {
	b, err := os.ReadFile(path)
	if err != nil {
		return nil, err
	}
	rf := &ReplayFile{}
	if err := json.Unmarshal(b, rf); err != nil {
		return nil, err
	}
	return rf, nil
}
