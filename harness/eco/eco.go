// Package eco erases the 20 concrete (Version, VersionRange, Ecosystem) type triples of go-univers
// behind one dynamic interface, without touching the repository.
package eco

import (
	"fmt"
	"reflect"
	"runtime/debug"
	"sort"

	"github.com/alowayed/go-univers/pkg/ecosystem/alpine"
	"github.com/alowayed/go-univers/pkg/ecosystem/alpm"
	"github.com/alowayed/go-univers/pkg/ecosystem/apache"
	"github.com/alowayed/go-univers/pkg/ecosystem/cargo"
	"github.com/alowayed/go-univers/pkg/ecosystem/composer"
	"github.com/alowayed/go-univers/pkg/ecosystem/conan"
	"github.com/alowayed/go-univers/pkg/ecosystem/cran"
	"github.com/alowayed/go-univers/pkg/ecosystem/debian"
	"github.com/alowayed/go-univers/pkg/ecosystem/gem"
	"github.com/alowayed/go-univers/pkg/ecosystem/gentoo"
	"github.com/alowayed/go-univers/pkg/ecosystem/github"
	"github.com/alowayed/go-univers/pkg/ecosystem/golang"
	"github.com/alowayed/go-univers/pkg/ecosystem/hex"
	"github.com/alowayed/go-univers/pkg/ecosystem/mattermost"
	"github.com/alowayed/go-univers/pkg/ecosystem/maven"
	"github.com/alowayed/go-univers/pkg/ecosystem/npm"
	"github.com/alowayed/go-univers/pkg/ecosystem/nuget"
	"github.com/alowayed/go-univers/pkg/ecosystem/pypi"
	"github.com/alowayed/go-univers/pkg/ecosystem/rpm"
	"github.com/alowayed/go-univers/pkg/ecosystem/semver"
	"github.com/alowayed/go-univers/pkg/spec/vers"
	"github.com/alowayed/go-univers/pkg/univers"
)

// Ver is a parsed version of some ecosystem.
type Ver interface {
	Compare(o Ver) int
	String() string
	Raw() any
	OwnCopy() Ver
}

// Rng is a parsed range of some ecosystem.
type Rng interface {
	Contains(v Ver) bool
	String() string
	Raw() any
}

// Eco is one ecosystem. NewVersion/NewRange return the raw (value, error) pair with nil-ness
// made observable: Ver/Rng is nil iff the underlying pointer is nil.
type Eco struct {
	Name       string
	NewVersion func(s string) (Ver, error)
	NewRange   func(s string) (Rng, error)
	Raw        any
}

type ver[V univers.Version[V]] struct{ v V }

func (a ver[V]) Compare(o Ver) int { return a.v.Compare(o.(ver[V]).v) }
func (a ver[V]) String() string    { return a.v.String() }
func (a ver[V]) Raw() any          { return a.v }

// OwnCopy returns a version whose object is a struct copy owned by the caller (what `x := *v` gives a caller who keeps
// a Version by value); nil when the underlying type is not a pointer to a struct.
func (a ver[V]) OwnCopy() (out Ver) {
	defer func() {
		if recover() != nil {
			out = nil
		}
	}()
	src := reflect.ValueOf(a.v)
	if src.Kind() != reflect.Ptr || src.IsNil() || src.Elem().Kind() != reflect.Struct {
		return nil
	}
	nv := reflect.New(src.Type().Elem())
	nv.Elem().Set(src.Elem())
	return ver[V]{nv.Interface().(V)}
}

type rng[V univers.Version[V], R univers.VersionRange[V]] struct{ r R }

func (a rng[V, R]) Contains(v Ver) bool { return a.r.Contains(v.(ver[V]).v) }
func (a rng[V, R]) String() string      { return a.r.String() }
func (a rng[V, R]) Raw() any            { return a.r }

// OverwriteInPlace performs *dst = *src on the parsed objects behind two versions of one ecosystem (what a caller does
// who keeps a Version by value and updates it); false when the objects are not pointers to the same struct type.
func OverwriteInPlace(dst, src Ver) (ok bool) {
	defer func() {
		if recover() != nil {
			ok = false
		}
	}()
	d, s := reflect.ValueOf(dst.Raw()), reflect.ValueOf(src.Raw())
	if d.Kind() != reflect.Ptr || s.Kind() != reflect.Ptr || d.IsNil() || s.IsNil() || d.Type() != s.Type() {
		return false
	}
	d.Elem().Set(s.Elem())
	return true
}

func isNil(x any) bool {
	if x == nil {
		return true
	}
	rv := reflect.ValueOf(x)
	switch rv.Kind() {
	case reflect.Ptr, reflect.Map, reflect.Slice, reflect.Interface, reflect.Func, reflect.Chan:
		return rv.IsNil()
	}
	return false
}

func adapt[V univers.Version[V], R univers.VersionRange[V]](e univers.Ecosystem[V, R]) *Eco {
	return &Eco{
		Name: e.Name(),
		Raw:  e,
		NewVersion: func(s string) (Ver, error) {
			v, err := e.NewVersion(s)
			if isNil(v) {
				return nil, err
			}
			return ver[V]{v}, err
		},
		NewRange: func(s string) (Rng, error) {
			r, err := e.NewVersionRange(s)
			if isNil(r) {
				return nil, err
			}
			return rng[V, R]{r}, err
		},
	}
}

// All returns fresh adapters for all 20 ecosystems sorted by name.
func All() []*Eco {
	l := []*Eco{
		adapt(&alpine.Ecosystem{}), adapt(&alpm.Ecosystem{}), adapt(&apache.Ecosystem{}),
		adapt(&cargo.Ecosystem{}), adapt(&composer.Ecosystem{}), adapt(&conan.Ecosystem{}),
		adapt(&cran.Ecosystem{}), adapt(&debian.Ecosystem{}), adapt(&gem.Ecosystem{}),
		adapt(&gentoo.Ecosystem{}), adapt(&github.Ecosystem{}), adapt(&golang.Ecosystem{}),
		adapt(&hex.Ecosystem{}), adapt(&mattermost.Ecosystem{}), adapt(&maven.Ecosystem{}),
		adapt(&npm.Ecosystem{}), adapt(&nuget.Ecosystem{}), adapt(&pypi.Ecosystem{}),
		adapt(&rpm.Ecosystem{}), adapt(&semver.Ecosystem{}),
	}
	sort.Slice(l, func(i, j int) bool { return l[i].Name < l[j].Name })
	return l
}

// ByName returns the adapter registered under the package's Name constant.
func ByName(name string) *Eco {
	for _, e := range All() {
		if e.Name == name {
			return e
		}
	}
	return nil
}

// Names lists the ecosystem names.
func Names() []string {
	var n []string
	for _, e := range All() {
		n = append(n, e.Name)
	}
	return n
}

// Panic describes a recovered panic at a call boundary.
type Panic struct {
	Value string
	Stack string
}

func catch(p **Panic) {
	if r := recover(); r != nil {
		*p = &Panic{Value: fmt.Sprint(r), Stack: string(debug.Stack())}
	}
}

// SafeNewVersion calls NewVersion with recover at the boundary.
func (e *Eco) SafeNewVersion(s string) (v Ver, err error, p *Panic) {
	defer catch(&p)
	v, err = e.NewVersion(s)
	return
}

// SafeNewRange calls NewVersionRange with recover at the boundary.
func (e *Eco) SafeNewRange(s string) (r Rng, err error, p *Panic) {
	defer catch(&p)
	r, err = e.NewRange(s)
	return
}

// SafeCompare calls a.Compare(b) with recover.
func SafeCompare(a, b Ver) (c int, p *Panic) {
	defer catch(&p)
	c = a.Compare(b)
	return
}

// SafeContains calls r.Contains(v) with recover.
func SafeContains(r Rng, v Ver) (ok bool, p *Panic) {
	defer catch(&p)
	ok = r.Contains(v)
	return
}

// SafeVString calls v.String() with recover.
func SafeVString(v Ver) (s string, p *Panic) {
	defer catch(&p)
	s = v.String()
	return
}

// SafeRString calls r.String() with recover.
func SafeRString(r Rng) (s string, p *Panic) {
	defer catch(&p)
	s = r.String()
	return
}

// SafeVersContains calls vers.Contains with recover at the boundary.
func SafeVersContains(r, v string) (ok bool, err error, p *Panic) {
	defer catch(&p)
	ok, err = vers.Contains(r, v)
	return
}
