// Package fuzz holds the native Go fuzz targets of C06 (coverage-guided exploration of the real
// library with the totality assertions as the oracle). They are run by the C06 check with an execution
// COUNT (-fuzztime=Nx), never a time budget; a crasher is moved to /verif/replays/C06 by the check.
package fuzz

import (
	"testing"

	"verif/harness/core"
	"verif/harness/eco"
	"verif/harness/gen"
)

var ecos = eco.All()

var partners = func() map[string][]eco.Ver {
	m := map[string][]eco.Ver{}
	for _, e := range ecos {
		for _, p := range []string{"1.0.0", "1.2", "2.0.0-alpha.1", "0.0.1", "10", "1.0-1", "1:1.0-r1", "1.0_p1", "1.0.0.rc1", "1.0~rc1", "v1.2.3", "1.0a1"} {
			if v, err := e.NewVersion(p); err == nil && v != nil {
				m[e.Name] = append(m[e.Name], v)
			}
		}
	}
	return m
}()

func FuzzVersion(f *testing.F) {
	r := core.Rand(1, "fuzz", "version")
	for i, e := range ecos {
		for k := 0; k < 6; k++ {
			f.Add(uint8(i), gen.One(e.Name, r), gen.One(e.Name, r))
		}
	}
	f.Fuzz(func(t *testing.T, idx uint8, a, b string) {
		e := ecos[int(idx)%len(ecos)]
		va, err := e.NewVersion(a)
		if (va == nil) == (err == nil) {
			t.Fatalf("%s.NewVersion(%q): value xor error violated (value nil=%v, err=%v)", e.Name, a, va == nil, err)
		}
		vb, errb := e.NewVersion(b)
		if (vb == nil) == (errb == nil) {
			t.Fatalf("%s.NewVersion(%q): value xor error violated", e.Name, b)
		}
		if va == nil {
			return
		}
		_ = va.String()
		if c := va.Compare(va); c != 0 {
			t.Fatalf("%s: Compare(%q,%q)=%d", e.Name, a, a, c)
		}
		for _, p := range partners[e.Name] {
			x, y := va.Compare(p), p.Compare(va)
			if x != -y || x < -1 || x > 1 {
				t.Fatalf("%s: Compare(%q,%q)=%d but reverse=%d", e.Name, a, p.String(), x, y)
			}
		}
		if vb != nil {
			x, y := va.Compare(vb), vb.Compare(va)
			if x != -y || x < -1 || x > 1 {
				t.Fatalf("%s: Compare(%q,%q)=%d but reverse=%d", e.Name, a, b, x, y)
			}
		}
	})
}

func FuzzRange(f *testing.F) {
	r := core.Rand(1, "fuzz", "range")
	for i, e := range ecos {
		for k := 0; k < 8; k++ {
			f.Add(uint8(i), gen.RangeOne(e.Name, r), gen.One(e.Name, r))
			f.Add(uint8(i), gen.HostileRange(e.Name, r), gen.One(e.Name, r))
		}
	}
	f.Fuzz(func(t *testing.T, idx uint8, rs, vs string) {
		e := ecos[int(idx)%len(ecos)]
		rg, err := e.NewRange(rs)
		if (rg == nil) == (err == nil) {
			t.Fatalf("%s.NewVersionRange(%q): value xor error violated (value nil=%v, err=%v)", e.Name, rs, rg == nil, err)
		}
		if rg == nil {
			return
		}
		_ = rg.String()
		for _, p := range partners[e.Name] {
			rg.Contains(p)
		}
		if v, err := e.NewVersion(vs); err == nil && v != nil {
			rg.Contains(v)
		}
	})
}

func FuzzVers(f *testing.F) {
	r := core.Rand(1, "fuzz", "vers")
	schemes := []string{"alpine", "cargo", "deb", "gem", "generic", "golang", "maven", "npm", "nuget", "pypi", "rpm"}
	names := map[string]string{"deb": "debian", "generic": "semver"}
	for _, sc := range schemes {
		en := sc
		if n, ok := names[sc]; ok {
			en = n
		}
		for k := 0; k < 6; k++ {
			f.Add("vers:"+sc+"/"+gen.Pick(r, ">=", "<", "=", "!=", "<=", ">")+gen.One(en, r)+gen.Pick(r, "", "|<"+gen.One(en, r), "|!="+gen.One(en, r)), gen.One(en, r))
		}
	}
	f.Add("vers:npm/*", "1.0.0")
	f.Add("vers:pypi/|", "1.0a1")
	f.Fuzz(func(t *testing.T, rs, vs string) {
		ok, err, pn := eco.SafeVersContains(rs, vs)
		if pn != nil {
			t.Fatalf("vers.Contains(%q,%q) panicked: %s\n%s", rs, vs, pn.Value, pn.Stack)
		}
		if ok && err != nil {
			t.Fatalf("vers.Contains(%q,%q) = (true, %v)", rs, vs, err)
		}
	})
}
