package gen

import (
	_ "embed"
	"encoding/json"
	"hash/adler32"
	"hash/crc32"
	"math/rand/v2"
	"os"
	"path/filepath"
	"sort"
	"strconv"
	"strings"
	"sync"
)

// Hash-collision family. A shortcut keyed on a 32-bit hash of the version text (memo tables validated by the hash
// alone, "equal hash => equal version" fast paths) is invisible to grammar-driven inputs: two random versions collide
// with probability 2^-32. Collisions among ORDINARY versions are cheap to find, though: the 10^6 texts x.y.z with
// x,y,z < 100 contain ~100 colliding pairs for every well-mixed 32-bit function (birthday bound) and many more for the
// weak multiplicative ones. The pairs are enumerated once per prefix ("" and "v") and cached under VERIF_CACHE.

// HashNames lists the functions searched.
var HashNames = []string{"fnv32a", "fnv32", "crc32-ieee", "crc32-castagnoli", "adler32", "djb2", "java31", "sdbm", "fnv64a-fold", "fnv64a-low"}

func hashOf(name string, s string) uint32 {
	switch name {
	case "fnv32a":
		h := uint32(2166136261)
		for i := 0; i < len(s); i++ {
			h ^= uint32(s[i])
			h *= 16777619
		}
		return h
	case "fnv32":
		h := uint32(2166136261)
		for i := 0; i < len(s); i++ {
			h *= 16777619
			h ^= uint32(s[i])
		}
		return h
	case "crc32-ieee":
		return crc32.ChecksumIEEE([]byte(s))
	case "crc32-castagnoli":
		return crc32.Checksum([]byte(s), castagnoli)
	case "adler32":
		return adler32.Checksum([]byte(s))
	case "djb2":
		h := uint32(5381)
		for i := 0; i < len(s); i++ {
			h = h*33 + uint32(s[i])
		}
		return h
	case "java31":
		h := uint32(0)
		for i := 0; i < len(s); i++ {
			h = h*31 + uint32(s[i])
		}
		return h
	case "sdbm":
		h := uint32(0)
		for i := 0; i < len(s); i++ {
			h = uint32(s[i]) + (h << 6) + (h << 16) - h
		}
		return h
	case "fnv64a-fold", "fnv64a-low":
		h := uint64(14695981039346656037)
		for i := 0; i < len(s); i++ {
			h ^= uint64(s[i])
			h *= 1099511628211
		}
		if name == "fnv64a-low" {
			return uint32(h)
		}
		return uint32(h>>32) ^ uint32(h)
	}
	return 0
}

var castagnoli = crc32.MakeTable(crc32.Castagnoli)

// collide64JSON holds collisions of the 64-bit FNV-1a / FNV-1 hashes among plain four-component versions, found once
// with cmd/collide64 (parallel Pollard rho with distinguished points, ~2^32.5 evaluations per pair), and pairs of plain
// three- and four-component versions with equal CRC-64 (ECMA, ISO) / CRC-32 (IEEE, Castagnoli), constructed with
// cmd/collidecrc (a CRC is affine over GF(2): Gaussian elimination over the low bits of 24 digits). Committed: a
// table validated by a 64-bit digest alone ("no need to compare the key") is wrong for exactly such pairs, and nobody
// meets one by chance. FNV is an iterated hash, so every common suffix keeps the collision.
//
//go:embed collide64.json
var collide64JSON []byte

// CommittedCollisions returns the committed 64-bit FNV and CRC pairs (without suffix variants).
func CommittedCollisions() []CollisionPair {
	var base []CollisionPair
	json.Unmarshal(collide64JSON, &base)
	return base
}

func collide64Pairs() []CollisionPair {
	var base []CollisionPair
	if json.Unmarshal(collide64JSON, &base) != nil {
		return nil
	}
	out := append([]CollisionPair{}, base...)
	for _, p := range base {
		if strings.HasPrefix(p.Hash, "crc") {
			continue // (a common suffix keeps a CRC collision too; the constructed pairs are long enough as they are)
		}
		for _, sfx := range []string{".7", "a1", "rc2", ".post1", "-rc1", "+local.1", "-1", "_p1", ".0", "-SNAPSHOT"} {
			out = append(out, CollisionPair{p.Hash + "+suffix", p.A + sfx, p.B + sfx})
		}
	}
	return out
}

// CollisionPair is two distinct plain versions with the same 32-bit hash under Hash.
type CollisionPair struct {
	Hash string `json:"hash"`
	A    string `json:"a"`
	B    string `json:"b"`
}

var (
	collideMu    sync.Mutex
	collideCache = map[string][]CollisionPair{}
)

const collideSpan = 100 // components 0..99
const collidePerHash = 120

// CollidingPairs returns the cached pairs for texts prefix+x.y.z.
func CollidingPairs(prefix string) []CollisionPair {
	collideMu.Lock()
	defer collideMu.Unlock()
	if p, ok := collideCache[prefix]; ok {
		return p
	}
	var file string
	if d := os.Getenv("VERIF_CACHE"); d != "" {
		file = filepath.Join(d, "collide.v4."+strconv.Itoa(len(prefix))+prefix+".json")
		if b, err := os.ReadFile(file); err == nil {
			var p []CollisionPair
			if json.Unmarshal(b, &p) == nil && len(p) > 0 {
				collideCache[prefix] = p
				return p
			}
		}
	}
	p := computeCollisions(prefix)
	if prefix == "" {
		p = append(p, collide64Pairs()...)
	}
	collideCache[prefix] = p
	if file != "" {
		if b, err := json.Marshal(p); err == nil {
			tmp := file + "." + strconv.Itoa(os.Getpid()) + ".tmp"
			if os.WriteFile(tmp, b, 0o644) == nil {
				os.Rename(tmp, file)
			}
		}
	}
	return p
}

func computeCollisions(prefix string) []CollisionPair {
	n := collideSpan * collideSpan * collideSpan
	text := func(i int) string {
		return prefix + strconv.Itoa(i/(collideSpan*collideSpan)) + "." + strconv.Itoa(i/collideSpan%collideSpan) + "." + strconv.Itoa(i%collideSpan)
	}
	res := make([][]CollisionPair, len(HashNames))
	var wg sync.WaitGroup
	for hi, name := range HashNames {
		wg.Add(1)
		go func(hi int, name string) {
			defer wg.Done()
			keys := make([]uint64, n)
			for i := 0; i < n; i++ {
				keys[i] = uint64(hashOf(name, text(i)))<<32 | uint64(i)
			}
			sort.Slice(keys, func(a, b int) bool { return keys[a] < keys[b] })
			var out []CollisionPair
			for i := 1; i < n; i++ {
				if keys[i]>>32 == keys[i-1]>>32 {
					out = append(out, CollisionPair{name, text(int(uint32(keys[i-1]))), text(int(uint32(keys[i])))})
				}
			}
			// weak functions collide thousands of times: keep an evenly spread sample
			if len(out) > collidePerHash {
				step := float64(len(out)) / collidePerHash
				var s []CollisionPair
				for k := 0; k < collidePerHash; k++ {
					s = append(s, out[int(float64(k)*step)])
				}
				out = s
			}
			res[hi] = out
		}(hi, name)
	}
	wg.Wait()
	var all []CollisionPair
	for _, r := range res {
		all = append(all, r...)
	}
	return all
}

// CollisionPrefix is the spelling prefix of plain versions per ecosystem.
func CollisionPrefix(eco string) string {
	if eco == "golang" {
		return "v"
	}
	return ""
}

// CollisionFamily returns k colliding pairs (a, b, a, b, ...) for the ecosystem.
func CollisionFamily(eco string, r *rand.Rand, k int) []string {
	ps := CollidingPairs(CollisionPrefix(eco))
	if len(ps) == 0 {
		return nil
	}
	var out []string
	for ; k > 0; k-- {
		p := ps[r.IntN(len(ps))]
		if r.IntN(3) == 0 { // one draw in three from the (few) 64-bit pairs at the end of the list
			if n64 := len(collide64Cached()); n64 > 0 && CollisionPrefix(eco) == "" && len(ps) >= n64 {
				p = ps[len(ps)-n64+r.IntN(n64)]
			}
		}
		out = append(out, p.A, p.B)
	}
	return out
}

var (
	c64once sync.Once
	c64     []CollisionPair
)

func collide64Cached() []CollisionPair {
	c64once.Do(func() { c64 = collide64Pairs() })
	return c64
}

// ---------------------------------------------------------------------------------------------------------------
// Hash-extreme family: ordinary versions x.y.z whose 32-bit hash is MinInt32 (abs() stays negative, h % n is
// negative), 0 ("unset"), MaxInt32 or 0xFFFFFFFF. One text in 2^32 has such a hash, so random inputs never do; a
// meet-in-the-middle search over 10^6 prefixes "x.y." and 10^5 suffixes "z" finds ~20 per function and target.

// HashExtreme is a plain version whose hash under Hash equals Target.
type HashExtreme struct {
	Hash   string `json:"hash"`
	Target uint32 `json:"target"`
	Text   string `json:"text"`
}

var extremeTargets = []uint32{0x80000000, 0, 0xFFFFFFFF, 0x7FFFFFFF}

// invertible one-byte steps: forward and backward
type stepFn struct {
	name     string
	init     uint32
	fwd, bwd func(h uint32, c byte) uint32
}

func modInv32(a uint32) uint32 { // a odd
	x := a
	for i := 0; i < 5; i++ {
		x *= 2 - a*x
	}
	return x
}

func stepFns() []stepFn {
	poly := func(name string, init, m uint32) stepFn {
		inv := modInv32(m)
		return stepFn{name, init, func(h uint32, c byte) uint32 { return h*m + uint32(c) }, func(h uint32, c byte) uint32 { return (h - uint32(c)) * inv }}
	}
	const p = 16777619
	pinv := modInv32(p)
	return []stepFn{
		poly("java31", 0, 31), poly("djb2", 5381, 33), poly("sdbm", 0, 65599),
		{"fnv32a", 2166136261, func(h uint32, c byte) uint32 { return (h ^ uint32(c)) * p }, func(h uint32, c byte) uint32 { return (h * pinv) ^ uint32(c) }},
		{"fnv32", 2166136261, func(h uint32, c byte) uint32 { return (h * p) ^ uint32(c) }, func(h uint32, c byte) uint32 { return (h ^ uint32(c)) * pinv }},
	}
}

var (
	extremeCache = map[string][]HashExtreme{}
)

// HashExtremes returns the cached extreme-hash versions for texts prefix+x.y.z.
func HashExtremes(prefix string) []HashExtreme {
	collideMu.Lock()
	defer collideMu.Unlock()
	if p, ok := extremeCache[prefix]; ok {
		return p
	}
	var file string
	if d := os.Getenv("VERIF_CACHE"); d != "" {
		file = filepath.Join(d, "hashextreme.v1."+strconv.Itoa(len(prefix))+prefix+".json")
		if b, err := os.ReadFile(file); err == nil {
			var p []HashExtreme
			if json.Unmarshal(b, &p) == nil && len(p) > 0 {
				extremeCache[prefix] = p
				return p
			}
		}
	}
	fns := stepFns()
	res := make([][]HashExtreme, len(fns))
	var wg sync.WaitGroup
	for fi, f := range fns {
		wg.Add(1)
		go func(fi int, f stepFn) {
			defer wg.Done()
			h0 := f.init
			for i := 0; i < len(prefix); i++ {
				h0 = f.fwd(h0, prefix[i])
			}
			mid := make(map[uint32]int32, 1<<20)
			for x := 0; x < 1000; x++ {
				hx := h0
				for _, c := range []byte(strconv.Itoa(x) + ".") {
					hx = f.fwd(hx, c)
				}
				for y := 0; y < 1000; y++ {
					hy := hx
					for _, c := range []byte(strconv.Itoa(y) + ".") {
						hy = f.fwd(hy, c)
					}
					mid[hy] = int32(x*1000 + y)
				}
			}
			var out []HashExtreme
			for _, t := range extremeTargets {
				n := 0
				for z := 0; z < 100000 && n < 8; z++ {
					zs := strconv.Itoa(z)
					h := t
					for i := len(zs) - 1; i >= 0; i-- {
						h = f.bwd(h, zs[i])
					}
					if xy, ok := mid[h]; ok {
						out = append(out, HashExtreme{f.name, t, prefix + strconv.Itoa(int(xy)/1000) + "." + strconv.Itoa(int(xy)%1000) + "." + zs})
						n++
					}
				}
			}
			res[fi] = out
		}(fi, f)
	}
	wg.Wait()
	var all []HashExtreme
	for _, r := range res {
		all = append(all, r...)
	}
	// self-check: only texts whose forward hash really equals the target are kept
	var ok []HashExtreme
	for _, x := range all {
		for _, f := range fns {
			if f.name == x.Hash {
				h := f.init
				for i := 0; i < len(x.Text); i++ {
					h = f.fwd(h, x.Text[i])
				}
				if h == x.Target {
					ok = append(ok, x)
				}
			}
		}
	}
	extremeCache[prefix] = ok
	if file != "" {
		if b, err := json.Marshal(ok); err == nil {
			tmp := file + "." + strconv.Itoa(os.Getpid()) + ".tmp"
			if os.WriteFile(tmp, b, 0o644) == nil {
				os.Rename(tmp, file)
			}
		}
	}
	return ok
}

// ExtremeFamily returns k extreme-hash versions (both the bare and the v-prefixed search space).
func ExtremeFamily(r *rand.Rand, k int) []string {
	var out []string
	for ; k > 0; k-- {
		ps := HashExtremes([]string{"", "v"}[r.IntN(2)])
		if len(ps) == 0 {
			continue
		}
		out = append(out, ps[r.IntN(len(ps))].Text)
	}
	return out
}
