package gen

import (
	"encoding/json"
	"hash/adler32"
	"hash/crc32"
	"math/rand/v2"
	"os"
	"path/filepath"
	"sort"
	"strconv"
	"sync"
)

// Hash-collision family. A shortcut keyed on a 32-bit hash of the version text (memo tables validated by the hash
// alone, "equal hash => equal version" fast paths) is invisible to grammar-driven inputs: two random versions collide
// with probability 2^-32. Collisions among ORDINARY versions are cheap to find, though: the 10^6 texts x.y.z with
// x,y,z < 100 contain ~100 colliding pairs for every well-mixed 32-bit function (birthday bound) and many more for the
// weak multiplicative ones. The pairs are enumerated once per prefix ("" and "v") and cached under VERIF_CACHE.

// HashNames lists the functions searched.
var HashNames = []string{"fnv32a", "fnv32", "crc32-ieee", "crc32-castagnoli", "adler32", "djb2", "java31", "sdbm", "fnv64a-fold", "fnv64a-low"}

func hashOf(name string, s string) uint32 {
	switch name {
	case "fnv32a":
		h := uint32(2166136261)
		for i := 0; i < len(s); i++ {
			h ^= uint32(s[i])
			h *= 16777619
		}
		return h
	case "fnv32":
		h := uint32(2166136261)
		for i := 0; i < len(s); i++ {
			h *= 16777619
			h ^= uint32(s[i])
		}
		return h
	case "crc32-ieee":
		return crc32.ChecksumIEEE([]byte(s))
	case "crc32-castagnoli":
		return crc32.Checksum([]byte(s), castagnoli)
	case "adler32":
		return adler32.Checksum([]byte(s))
	case "djb2":
		h := uint32(5381)
		for i := 0; i < len(s); i++ {
			h = h*33 + uint32(s[i])
		}
		return h
	case "java31":
		h := uint32(0)
		for i := 0; i < len(s); i++ {
			h = h*31 + uint32(s[i])
		}
		return h
	case "sdbm":
		h := uint32(0)
		for i := 0; i < len(s); i++ {
			h = uint32(s[i]) + (h << 6) + (h << 16) - h
		}
		return h
	case "fnv64a-fold", "fnv64a-low":
		h := uint64(14695981039346656037)
		for i := 0; i < len(s); i++ {
			h ^= uint64(s[i])
			h *= 1099511628211
		}
		if name == "fnv64a-low" {
			return uint32(h)
		}
		return uint32(h>>32) ^ uint32(h)
	}
	return 0
}

var castagnoli = crc32.MakeTable(crc32.Castagnoli)

// CollisionPair is two distinct plain versions with the same 32-bit hash under Hash.
type CollisionPair struct {
	Hash string `json:"hash"`
	A    string `json:"a"`
	B    string `json:"b"`
}

var (
	collideMu    sync.Mutex
	collideCache = map[string][]CollisionPair{}
)

const collideSpan = 100 // components 0..99
const collidePerHash = 120

// CollidingPairs returns the cached pairs for texts prefix+x.y.z.
func CollidingPairs(prefix string) []CollisionPair {
	collideMu.Lock()
	defer collideMu.Unlock()
	if p, ok := collideCache[prefix]; ok {
		return p
	}
	var file string
	if d := os.Getenv("VERIF_CACHE"); d != "" {
		file = filepath.Join(d, "collide.v2."+strconv.Itoa(len(prefix))+prefix+".json")
		if b, err := os.ReadFile(file); err == nil {
			var p []CollisionPair
			if json.Unmarshal(b, &p) == nil && len(p) > 0 {
				collideCache[prefix] = p
				return p
			}
		}
	}
	p := computeCollisions(prefix)
	collideCache[prefix] = p
	if file != "" {
		if b, err := json.Marshal(p); err == nil {
			tmp := file + "." + strconv.Itoa(os.Getpid()) + ".tmp"
			if os.WriteFile(tmp, b, 0o644) == nil {
				os.Rename(tmp, file)
			}
		}
	}
	return p
}

func computeCollisions(prefix string) []CollisionPair {
	n := collideSpan * collideSpan * collideSpan
	text := func(i int) string {
		return prefix + strconv.Itoa(i/(collideSpan*collideSpan)) + "." + strconv.Itoa(i/collideSpan%collideSpan) + "." + strconv.Itoa(i%collideSpan)
	}
	res := make([][]CollisionPair, len(HashNames))
	var wg sync.WaitGroup
	for hi, name := range HashNames {
		wg.Add(1)
		go func(hi int, name string) {
			defer wg.Done()
			keys := make([]uint64, n)
			for i := 0; i < n; i++ {
				keys[i] = uint64(hashOf(name, text(i)))<<32 | uint64(i)
			}
			sort.Slice(keys, func(a, b int) bool { return keys[a] < keys[b] })
			var out []CollisionPair
			for i := 1; i < n; i++ {
				if keys[i]>>32 == keys[i-1]>>32 {
					out = append(out, CollisionPair{name, text(int(uint32(keys[i-1]))), text(int(uint32(keys[i])))})
				}
			}
			// weak functions collide thousands of times: keep an evenly spread sample
			if len(out) > collidePerHash {
				step := float64(len(out)) / collidePerHash
				var s []CollisionPair
				for k := 0; k < collidePerHash; k++ {
					s = append(s, out[int(float64(k)*step)])
				}
				out = s
			}
			res[hi] = out
		}(hi, name)
	}
	wg.Wait()
	var all []CollisionPair
	for _, r := range res {
		all = append(all, r...)
	}
	return all
}

// CollisionPrefix is the spelling prefix of plain versions per ecosystem.
func CollisionPrefix(eco string) string {
	if eco == "golang" {
		return "v"
	}
	return ""
}

// CollisionFamily returns k colliding pairs (a, b, a, b, ...) for the ecosystem.
func CollisionFamily(eco string, r *rand.Rand, k int) []string {
	ps := CollidingPairs(CollisionPrefix(eco))
	if len(ps) == 0 {
		return nil
	}
	var out []string
	for ; k > 0; k-- {
		p := ps[r.IntN(len(ps))]
		out = append(out, p.A, p.B)
	}
	return out
}
