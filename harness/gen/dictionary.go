package gen

import (
	_ "embed"
	"encoding/json"
	"go/ast"
	"go/parser"
	"go/token"
	"math/rand/v2"
	"os"
	"path/filepath"
	"regexp"
	"sort"
	"strconv"
	"strings"
)

// The source-derived dictionary: every word and every number that occurs as a literal in the non-test
// sources of the tree under test. A change that special-cases one particular qualifier word or one
// particular magnitude necessarily writes that word or number into the source, so the workload generators
// pick it up from there (together with its neighbours n-1, n+1 and, for small n, 2^n and 2^n +- 1).
var (
	dictWords []string
	dictNums  []string
	// per ecosystem package (pkg/ecosystem/<name>): the literals of that package only
	ecoWords = map[string][]string{}
	ecoNums  = map[string][]string{}
	// punctuation-only literals of 1..3 characters (operator and separator spellings) per package
	ecoSyms = map[string][]string{}
)

var dictSymRe = regexp.MustCompile(`^[!-/:-@\[-` + "`" + `{-~]{1,3}$`)

// The baseline: the dictionary of the tree as it was when the harness was last calibrated (gen/baseline_dict.json,
// written by `verifmon DICT dump`). Literals of the tree under test that are NOT in the baseline - words, numbers,
// operator spellings and whole short string literals that a later change introduced - are drawn half of the time
// wherever a dictionary entry is drawn, and whole new literals are glued before / after / between versions. On the
// tree the baseline was taken from the delta is empty and nothing changes.
//
//go:embed baseline_dict.json
var baselineJSON []byte

type dictSnapshot struct {
	Words map[string][]string `json:"words"`
	Nums  map[string][]string `json:"nums"`
	Syms  map[string][]string `json:"syms"`
	Lits  map[string][]string `json:"lits"`
	Regex map[string][]string `json:"regex"`
}

var (
	ecoLits  = map[string][]string{} // whole string literals of <= 16 bytes per package
	newWords = map[string][]string{}
	newNums  = map[string][]string{}
	newSyms  = map[string][]string{}
	newLits  = map[string][]string{}
)

// DumpDictionary serialises the current dictionary (the baseline file format).
func DumpDictionary() []byte {
	snap := dictSnapshot{Words: map[string][]string{"": dictWords}, Nums: map[string][]string{"": dictNums}, Syms: ecoSyms, Lits: ecoLits, Regex: ecoRegex}
	for k, v := range ecoWords {
		snap.Words[k] = v
	}
	for k, v := range ecoNums {
		snap.Nums[k] = v
	}
	b, _ := json.Marshal(snap)
	return b
}

// DeltaSizes reports how many literals of the tree under test are not in the baseline (evidence).
func DeltaSizes() map[string]int {
	n := map[string]int{}
	for _, m := range []struct {
		k string
		v map[string][]string
	}{{"words", newWords}, {"numbers", newNums}, {"operators", newSyms}, {"whole_literals", newLits}, {"regexes", newRegex}} {
		for _, l := range m.v {
			n[m.k] += len(l)
		}
	}
	return n
}

func computeDelta() {
	var base dictSnapshot
	if len(baselineJSON) == 0 || json.Unmarshal(baselineJSON, &base) != nil || base.Words == nil {
		return
	}
	diff := func(cur map[string][]string, old map[string][]string, out map[string][]string, extra string, extraCur []string) {
		do := func(k string, l []string) {
			seen := map[string]bool{}
			for _, x := range old[k] {
				seen[x] = true
			}
			for _, x := range l {
				if !seen[x] {
					out[k] = append(out[k], x)
				}
			}
		}
		for k, l := range cur {
			do(k, l)
		}
		if extraCur != nil {
			do(extra, extraCur)
		}
	}
	diff(ecoWords, base.Words, newWords, "", dictWords)
	diff(ecoNums, base.Nums, newNums, "", dictNums)
	diff(ecoSyms, base.Syms, newSyms, "", nil)
	diff(ecoLits, base.Lits, newLits, "", nil)
	diff(ecoRegex, base.Regex, newRegex, "", nil)
	seen := map[string]bool{}
	var pk []string
	for k := range newLits {
		pk = append(pk, k)
	}
	sort.Strings(pk)
	for _, k := range pk {
		for _, l := range newLits[k] {
			if !seen[l] {
				seen[l] = true
				allNewLits = append(allNewLits, l)
			}
		}
	}
	for _, k := range func() []string {
		var ks []string
		for k := range newSyms {
			ks = append(ks, k)
		}
		sort.Strings(ks)
		return ks
	}() {
		for _, l := range newSyms[k] {
			if !seen[l] {
				seen[l] = true
				allNewLits = append(allNewLits, l)
			}
		}
	}
}

// DeltaThreshold returns the largest number in [lo, hi] that is a literal (or a power 2^n / 10^n of a small literal n) of
// the ecosystem's package - or of pkg/spec/vers - and is NOT in the baseline: the size at which a table, ring or cache
// that a change introduced fills up is written in its source. 0 when there is none.
func DeltaThreshold(eco string, lo, hi uint64) uint64 {
	var best uint64
	for _, pkg := range []string{eco, "vers"} {
		var vals []uint64
		for _, n := range newNums[pkg] {
			if v, err := strconv.ParseUint(n, 10, 64); err == nil && v >= 2 && v <= hi {
				vals = append(vals, v)
				if v >= lo && v > best {
					best = v
				}
			}
		}
		// a capacity written as a product or a shift (64 shards x 32768 slots, 64 << 20): products of a new literal with
		// any number literal of the package count as well
		if len(vals) <= 400 {
			var all []uint64
			for _, n := range ecoNums[pkg] {
				if v, err := strconv.ParseUint(n, 10, 64); err == nil && v >= 2 && v <= hi {
					all = append(all, v)
				}
			}
			for _, a := range vals {
				for _, b := range all {
					if p := a * b; p/b == a && p >= lo && p <= hi && p > best {
						best = p
					}
				}
			}
		}
	}
	return best
}

// AnyNewLit draws a whole literal that some package of the tree under test has and the baseline has not ("" when the
// delta is empty).
func AnyNewLit(r *rand.Rand) string {
	if len(allNewLits) == 0 {
		return ""
	}
	return allNewLits[r.IntN(len(allNewLits))]
}

var allNewLits []string

// NewLits returns the whole short string literals of a package that the baseline does not have.
func NewLits(pkg string) []string { return newLits[pkg] }

var dictWordRe = regexp.MustCompile(`[A-Za-z]{1,20}`)
var dictNumRe = regexp.MustCompile(`[0-9]{1,30}`)

// LoadDictionary scans <repo>/pkg and <repo>/cmd. It is called once at start-up by verifmon.
func LoadDictionary(repo string) (words, nums int) {
	ws, ns := map[string]bool{}, map[string]bool{}
	pws, pns := map[string]map[string]bool{}, map[string]map[string]bool{}
	psy := map[string]map[string]bool{}
	plit := map[string]map[string]bool{}
	curPkg := ""
	addWord := func(w string) {
		ws[w] = true
		if curPkg != "" {
			if pws[curPkg] == nil {
				pws[curPkg] = map[string]bool{}
			}
			pws[curPkg][w] = true
		}
	}
	addNum := func(n string) {
		n = strings.TrimLeft(n, "0")
		if n == "" {
			n = "0"
		}
		set := []map[string]bool{ns}
		if curPkg != "" {
			if pns[curPkg] == nil {
				pns[curPkg] = map[string]bool{}
			}
			set = append(set, pns[curPkg])
		}
		for _, m := range set {
			m[n] = true
			m[decInc(n)] = true
			m[decDec(n)] = true
			if v, err := strconv.Atoi(n); err == nil && v >= 3 && v <= 64 { // a bit width or a digit count
				p := "1"
				for i := 0; i < v; i++ {
					p = decDouble(p)
				}
				m[p], m[decInc(p)], m[decDec(p)] = true, true, true
				if v <= 30 {
					t := "1" + strings.Repeat("0", v)
					m[t], m[decDec(t)], m[decInc(t)] = true, true, true
				}
			}
		}
	}
	fset := token.NewFileSet()
	for _, sub := range []string{"pkg", "cmd"} {
		filepath.WalkDir(filepath.Join(repo, sub), func(path string, d os.DirEntry, err error) error {
			if err != nil || d.IsDir() || !strings.HasSuffix(path, ".go") || strings.HasSuffix(path, "_test.go") {
				return nil
			}
			f, err := parser.ParseFile(fset, path, nil, 0)
			if err != nil {
				return nil
			}
			curPkg = ""
			if rel, e2 := filepath.Rel(filepath.Join(repo, "pkg", "ecosystem"), path); e2 == nil && !strings.HasPrefix(rel, "..") {
				curPkg = strings.Split(filepath.ToSlash(rel), "/")[0]
			} else if sub == "cmd" {
				curPkg = "cmd"
			}
			ast.Inspect(f, func(n ast.Node) bool {
				if ce, ok := n.(*ast.CallExpr); ok && curPkg != "" && len(ce.Args) >= 1 {
					if se, ok := ce.Fun.(*ast.SelectorExpr); ok {
						if id, ok := se.X.(*ast.Ident); ok && id.Name == "regexp" && strings.Contains(se.Sel.Name, "ompile") {
							if a, ok := ce.Args[0].(*ast.BasicLit); ok && a.Kind == token.STRING {
								if src, err := strconv.Unquote(a.Value); err == nil && len(src) < 600 {
									dup := false
									for _, x := range ecoRegex[curPkg] {
										dup = dup || x == src
									}
									if !dup {
										ecoRegex[curPkg] = append(ecoRegex[curPkg], src)
									}
								}
							}
						}
					}
				}
				bl, ok := n.(*ast.BasicLit)
				if !ok {
					return true
				}
				switch bl.Kind {
				case token.STRING, token.CHAR:
					s, err := strconv.Unquote(bl.Value)
					if err != nil {
						if r, _, _, e2 := strconv.UnquoteChar(strings.Trim(bl.Value, "'"), '\''); e2 == nil {
							s = string(r)
						}
					}
					if len(s) > 200 {
						return true
					}
					if curPkg != "" && len(s) >= 1 && len(s) <= 16 && !strings.ContainsAny(s, "\n\x00") {
						if plit[curPkg] == nil {
							plit[curPkg] = map[string]bool{}
						}
						plit[curPkg][s] = true
					}
					if curPkg != "" && dictSymRe.MatchString(s) {
						if psy[curPkg] == nil {
							psy[curPkg] = map[string]bool{}
						}
						psy[curPkg][s] = true
					}
					for _, w := range dictWordRe.FindAllString(s, -1) {
						addWord(w)
					}
					for _, d := range dictNumRe.FindAllString(s, -1) {
						addNum(d)
					}
				case token.INT:
					if v, err := strconv.ParseUint(strings.ReplaceAll(bl.Value, "_", ""), 0, 64); err == nil {
						addNum(strconv.FormatUint(v, 10))
					}
				}
				return true
			})
			return nil
		})
	}
	dictWords, dictNums = dictWords[:0], dictNums[:0]
	for w := range ws {
		dictWords = append(dictWords, w)
	}
	for n := range ns {
		dictNums = append(dictNums, n)
	}
	sort.Strings(dictWords)
	sort.Strings(dictNums)
	for pkg, m := range pws {
		var l []string
		for w := range m {
			l = append(l, w)
		}
		sort.Strings(l)
		ecoWords[pkg] = l
	}
	for pkg, m := range pns {
		var l []string
		for n := range m {
			l = append(l, n)
		}
		sort.Strings(l)
		ecoNums[pkg] = l
	}
	for pkg, m := range psy {
		var l []string
		for n := range m {
			l = append(l, n)
		}
		sort.Strings(l)
		ecoSyms[pkg] = l
	}
	for pkg, m := range plit {
		var l []string
		for n := range m {
			l = append(l, n)
		}
		sort.Strings(l)
		ecoLits[pkg] = l
	}
	computeDelta()
	prepareRegexes()
	return len(dictWords), len(dictNums)
}

// PkgNums returns the number literals (with their derived neighbours and powers) of one package; "" = whole tree.
func PkgNums(pkg string) []string {
	if pkg == "" {
		return dictNums
	}
	return ecoNums[pkg]
}

// PkgSymbols returns the punctuation-only string / char literals (1..3 characters) of one package.
func PkgSymbols(pkg string) []string { return ecoSyms[pkg] }

// SymRange writes a range as <symbol><version> (or with a space, or two of them joined by the ecosystem's usual
// separators) where <symbol> is a punctuation literal of the ecosystem's own sources: operators the workload tables do
// not know yet are exercised the day they are added. The result may well be rejected by the parser.
func SymRange(eco string, r *rand.Rand, version func() string) string {
	sy := ecoSyms[eco]
	if len(sy) == 0 {
		return ">=" + version()
	}
	sym := func() string {
		if d := newSyms[eco]; len(d) > 0 && r.IntN(2) == 0 {
			return d[r.IntN(len(d))]
		}
		if d := newLits[eco]; len(d) > 0 && r.IntN(3) == 0 {
			return d[r.IntN(len(d))]
		}
		return sy[r.IntN(len(sy))]
	}
	one := func() string {
		s := sym()
		v := version()
		switch k := r.IntN(20); {
		case k < 9: // prefix operator
			if r.IntN(4) == 0 {
				s += " "
			}
			return s + v
		case k < 12: // suffix marker (1.2*, 1.2+)
			return v + s
		case k < 17: // circumfix of two literals (=1.2*, [1.2])
			return s + v + sym()
		default: // one multi-character literal split around the version ("=*" -> =1.2*)
			if len(s) >= 2 {
				return s[:1] + v + s[1:]
			}
			return s + v + s
		}
	}
	switch r.IntN(4) {
	case 0:
		return one() + []string{" ", ",", ", ", " || ", "|"}[r.IntN(5)] + one()
	}
	return one()
}

func decDouble(d string) string {
	carry := 0
	b := []byte(d)
	for i := len(b) - 1; i >= 0; i-- {
		v := int(b[i]-'0')*2 + carry
		b[i] = byte('0' + v%10)
		carry = v / 10
	}
	if carry > 0 {
		return "1" + string(b)
	}
	return string(b)
}

// DictWord returns a word from the source dictionary ("" when none was loaded).
func DictWord(r *rand.Rand) string {
	if d := newWords[""]; len(d) > 0 && r.IntN(2) == 0 {
		return d[r.IntN(len(d))]
	}
	if len(dictWords) == 0 {
		return "foo"
	}
	return dictWords[r.IntN(len(dictWords))]
}

// DictNum returns a number from the source dictionary.
func DictNum(r *rand.Rand) string {
	if d := newNums[""]; len(d) > 0 && r.IntN(2) == 0 {
		return d[r.IntN(len(d))]
	}
	if len(dictNums) == 0 {
		return "7"
	}
	return dictNums[r.IntN(len(dictNums))]
}

// EcoWord / EcoNum draw from the literals of one ecosystem package (falling back to the whole tree).
func EcoWord(eco string, r *rand.Rand) string {
	if d := newWords[eco]; len(d) > 0 && r.IntN(2) == 0 {
		return d[r.IntN(len(d))]
	}
	if l := ecoWords[eco]; len(l) > 0 {
		return l[r.IntN(len(l))]
	}
	return DictWord(r)
}

func EcoNum(eco string, r *rand.Rand) string {
	if d := newNums[eco]; len(d) > 0 && r.IntN(2) == 0 {
		return d[r.IntN(len(d))]
	}
	if l := ecoNums[eco]; len(l) > 0 {
		return l[r.IntN(len(l))]
	}
	return DictNum(r)
}

// PkgWords returns the literal words of one package ("cmd" = the CLI sources, else an ecosystem name).
func PkgWords(pkg string) []string { return ecoWords[pkg] }

// DictSizes reports the dictionary sizes (evidence).
func DictSizes() (int, int) { return len(dictWords), len(dictNums) }
