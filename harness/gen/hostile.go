package gen

import (
	"math/rand/v2"
	"strings"
)

var hostileBytes = []string{"\x00", "\x01", "\x7f", "\xff", "\xc3\x28", "é", "٣", "０", "​", " ", "\t", "\n", "\r", "\v", "\f", " ", " ", "😀",
	".", "-", "_", "+", "~", "^", ":", "!", "=", "<", ">", ",", "|", "*", "[", "]", "(", ")", "@", "#", "/", "\\", "\"", "'", "x", "X", "v", "0", "9", "a", "r", "e", "E"}

// Hostile applies one byte-level mutation to s.
func Hostile(s string, r *rand.Rand) string {
	b := []byte(s)
	ins := hostileBytes[r.IntN(len(hostileBytes))]
	pos := 0
	if len(b) > 0 {
		pos = r.IntN(len(b) + 1)
	}
	switch r.IntN(6) {
	case 0: // insert
		return string(b[:pos]) + ins + string(b[pos:])
	case 1: // delete
		if len(b) == 0 {
			return ins
		}
		p := r.IntN(len(b))
		return string(b[:p]) + string(b[p+1:])
	case 2: // replace
		if len(b) == 0 {
			return ins
		}
		p := r.IntN(len(b))
		return string(b[:p]) + ins + string(b[p+1:])
	case 3: // duplicate a slice
		if len(b) == 0 {
			return ins + ins
		}
		p := r.IntN(len(b))
		q := p + r.IntN(len(b)-p) + 1
		return string(b[:q]) + string(b[p:q]) + string(b[q:])
	case 4: // swap two bytes
		if len(b) < 2 {
			return s + ins
		}
		p, q := r.IntN(len(b)), r.IntN(len(b))
		b[p], b[q] = b[q], b[p]
		return string(b)
	default: // truncate
		if len(b) == 0 {
			return ""
		}
		return string(b[:r.IntN(len(b))])
	}
}

// Ladder returns size-n strings of the hostile size ladders.
func Ladder(n int) []string {
	rep := func(u string) string { return strings.Repeat(u, n/len(u)+1)[:n] }
	var distinct strings.Builder
	for i := 0; distinct.Len() < n; i++ {
		distinct.WriteString("-a")
		distinct.WriteString(itoa(i))
	}
	return []string{
		rep("9"), "1." + rep("0"), rep("1."), "1" + rep(".1"), "1" + rep("-a"), "1" + distinct.String(), rep("1a"), "1" + rep("_p1"), "1" + rep("~"), "1" + rep("^"),
		rep(">=1 "), rep("|>=1"), rep("||"), rep("["), rep("("), rep(","), rep(">=1,"), rep(">=1.0.0 || "), rep("*"), rep(" "), rep("x."), "1" + rep(".x"),
		"1.0.0-" + rep("a."), "1.0.0-" + rep("a") + "+" + rep("b"), "1" + rep("+"), "v" + rep("1"), rep("0") + "1", "1" + rep(".0") + ".1", "1.0" + rep("rc") + "1",
		"1:" + rep("1:"), rep("!=1|"), rep("1 - "), rep("~>"), rep("^"), rep("~="), "1.0.0-" + rep("0123456789") + ".1",
	}
}

func itoa(i int) string {
	if i == 0 {
		return "0"
	}
	var b []byte
	for i > 0 {
		b = append([]byte{byte('0' + i%10)}, b...)
		i /= 10
	}
	return string(b)
}
