package gen

import (
	"math/rand/v2"
	"strings"
)

var hostileBytes = []string{"\x00", "\x01", "\x7f", "\xff", "\xc3\x28", "é", "٣", "０", "​", " ", "\t", "\n", "\r", "\v", "\f", " ", " ", "😀",
	".", "-", "_", "+", "~", "^", ":", "!", "=", "<", ">", ",", "|", "*", "[", "]", "(", ")", "@", "#", "/", "\\", "\"", "'", "x", "X", "v", "0", "9", "a", "r", "e", "E"}

// Hostile applies one byte-level mutation to s.
func Hostile(s string, r *rand.Rand) string {
	b := []byte(s)
	ins := hostileBytes[r.IntN(len(hostileBytes))]
	pos := 0
	if len(b) > 0 {
		pos = r.IntN(len(b) + 1)
	}
	switch r.IntN(6) {
	case 0: // insert
		return string(b[:pos]) + ins + string(b[pos:])
	case 1: // delete
		if len(b) == 0 {
			return ins
		}
		p := r.IntN(len(b))
		return string(b[:p]) + string(b[p+1:])
	case 2: // replace
		if len(b) == 0 {
			return ins
		}
		p := r.IntN(len(b))
		return string(b[:p]) + ins + string(b[p+1:])
	case 3: // duplicate a slice
		if len(b) == 0 {
			return ins + ins
		}
		p := r.IntN(len(b))
		q := p + r.IntN(len(b)-p) + 1
		return string(b[:q]) + string(b[p:q]) + string(b[q:])
	case 4: // swap two bytes
		if len(b) < 2 {
			return s + ins
		}
		p, q := r.IntN(len(b)), r.IntN(len(b))
		b[p], b[q] = b[q], b[p]
		return string(b)
	default: // truncate
		if len(b) == 0 {
			return ""
		}
		return string(b[:r.IntN(len(b))])
	}
}

// Ladder returns size-n strings of the hostile size ladders.
func Ladder(n int) []string {
	rep := func(u string) string { return strings.Repeat(u, n/len(u)+1)[:n] }
	var distinct strings.Builder
	for i := 0; distinct.Len() < n; i++ {
		distinct.WriteString("-a")
		distinct.WriteString(itoa(i))
	}
	return []string{
		rep("9"), "1." + rep("0"), rep("1."), "1" + rep(".1"), "1" + rep("-a"), "1" + distinct.String(), rep("1a"), "1" + rep("_p1"), "1" + rep("~"), "1" + rep("^"),
		rep(">=1 "), rep("|>=1"), rep("||"), rep("["), rep("("), rep(","), rep(">=1,"), rep(">=1.0.0 || "), rep("*"), rep(" "), rep("x."), "1" + rep(".x"),
		"1.0.0-" + rep("a."), "1.0.0-" + rep("a") + "+" + rep("b"), "1" + rep("+"), "v" + rep("1"), rep("0") + "1", "1" + rep(".0") + ".1", "1.0" + rep("rc") + "1",
		"1:" + rep("1:"), rep("!=1|"), rep("1 - "), rep("~>"), rep("^"), rep("~="), "1.0.0-" + rep("0123456789") + ".1",
	}
}

func itoa(i int) string {
	if i == 0 {
		return "0"
	}
	var b []byte
	for i > 0 {
		b = append([]byte{byte('0' + i%10)}, b...)
		i /= 10
	}
	return string(b)
}

var bareOps = []string{">=", "<=", ">", "<", "=", "!=", "==", "~>", "~=", "^", "~", "<>", ">>", "<<", "===", "*", "x", "-", "||", "and", "AND", ",", "[", "(", "]", ")", "@", "@dev"}

// HostileRange applies TOKEN-level damage to an intended-valid range of the ecosystem: an operator that lost
// its operand, an operand that lost its operator, a bare operator appended with each AND / OR separator,
// deleted or doubled tokens and separators. (Panics in range parsers live behind exactly these shapes and
// byte-level mutation rarely produces them together with keyword separators such as " and ".)
func HostileRange(eco string, r *rand.Rand) string {
	syn := rangeTable[eco]
	seps := append(append([]string{" ", ",", ", ", " || ", "||", " and ", " - "}, syn.and...), syn.or...)
	base := RangeOne(eco, r)
	if r.IntN(3) == 0 { // force a multi-constraint range with a keyword separator
		base = RangeOne(eco, r) + seps[r.IntN(len(seps))] + RangeOne(eco, r)
	}
	toks := strings.Fields(base)
	ops := bareOps
	if r.IntN(4) == 0 { // a keyword or symbol that is a literal of this ecosystem's own sources
		ops = []string{EcoWord(eco, r), strings.ToUpper(EcoWord(eco, r)), EcoNum(eco, r), "@" + EcoWord(eco, r)}
	}
	switch r.IntN(8) {
	case 0: // append a bare operator
		return base + seps[r.IntN(len(seps))] + ops[r.IntN(len(ops))]
	case 1: // prepend a bare operator
		return ops[r.IntN(len(ops))] + seps[r.IntN(len(seps))] + base
	case 2: // strip the operand of the last token
		if len(toks) > 0 {
			t := toks[len(toks)-1]
			k := 0
			for k < len(t) && strings.ContainsRune("<>=!~^", rune(t[k])) {
				k++
			}
			toks[len(toks)-1] = t[:k]
			return strings.Join(toks, " ")
		}
	case 3: // delete a token
		if len(toks) > 1 {
			k := r.IntN(len(toks))
			return strings.Join(append(append([]string{}, toks[:k]...), toks[k+1:]...), " ")
		}
	case 4: // replace a token by a bare operator
		if len(toks) > 0 {
			toks[r.IntN(len(toks))] = ops[r.IntN(len(ops))]
			return strings.Join(toks, " ")
		}
	case 5: // double a separator / trailing separator
		return base + seps[r.IntN(len(seps))]
	case 6: // only operators and separators
		n := 1 + r.IntN(4)
		out := ""
		for i := 0; i < n; i++ {
			out += bareOps[r.IntN(len(bareOps))] + seps[r.IntN(len(seps))]
		}
		return out + pick(r, "", bareOps[r.IntN(len(bareOps))])
	}
	return seps[r.IntN(len(seps))] + base
}
