package gen

import (
	"math/rand/v2"
	"strconv"
	"strings"
)

type rangeSyntax struct {
	ops []string
	and []string
	or  []string
}

var rangeTable = map[string]rangeSyntax{
	"alpine":     {ops: []string{"=", "!=", "<", "<=", ">", ">=", ""}, and: []string{" "}},
	"alpm":       {ops: []string{"=", "<", "<=", ">", ">=", ""}, and: []string{" ", " and "}},
	"apache":     {ops: []string{"=", "<", "<=", ">", ">=", ""}, and: []string{" "}},
	"github":     {ops: []string{"=", "<", "<=", ">", ">=", ""}, and: []string{" "}},
	"mattermost": {ops: []string{"=", "<", "<=", ">", ">=", ""}, and: []string{" "}},
	"cargo":      {ops: []string{"=", "!=", "<", "<=", ">", ">=", "", "^", "~"}, and: []string{",", ", "}},
	"composer":   {ops: []string{"=", "==", "!=", "<>", "<", "<=", ">", ">=", "", "^", "~"}, and: []string{" ", ",", ", "}, or: []string{"||", " || "}},
	"conan":      {ops: []string{"=", "!=", "<", "<=", ">", ">=", "", "^", "~"}, and: []string{" ", ",", ", "}, or: []string{"||", " || "}},
	"cran":       {ops: []string{"=", "!=", "<", "<=", ">", ">=", ""}, and: []string{",", ", "}},
	"debian":     {ops: []string{"=", "!=", "<", "<=", ">", ">=", "<<", ">>", ""}, and: []string{",", ", "}},
	"gem":        {ops: []string{"=", "!=", "<", "<=", ">", ">=", "", "~>", "~> "}, and: []string{",", ", "}},
	"pypi":       {ops: []string{"==", "!=", "<", "<=", ">", ">=", "", "~=", "==="}, and: []string{",", ", "}},
	"gentoo":     {ops: []string{"=", "!=", "<", "<=", ">", ">=", ""}, and: []string{" ", ",", ", "}},
	"rpm":        {ops: []string{"=", "!=", "<", "<=", ">", ">=", ""}, and: []string{" ", ",", ", "}},
	"semver":     {ops: []string{"=", "!=", "<", "<=", ">", ">=", ""}, and: []string{" ", ",", ", "}},
	"golang":     {ops: []string{"=", "!=", "<", "<=", ">", ">=", ""}, and: []string{" "}},
	"hex":        {ops: []string{"=", "<", "<=", ">", ">=", "", "~>", "~> "}, and: []string{" ", " and "}},
	"npm":        {ops: []string{"=", "<", "<=", ">", ">=", "", "^", "~"}, and: []string{" "}, or: []string{"||", " || "}},
	"nuget":      {ops: []string{"=", "!=", "<", "<=", ">", ">="}, and: []string{",", ", "}},
	"maven":      {},
}

func partial(r *rand.Rand) string {
	n := 1 + r.IntN(3)
	var c []string
	for i := 0; i < n; i++ {
		c = append(c, pick(r, "0", "0", "1", "2", "3", "9", "10"))
	}
	return strings.Join(c, ".")
}

// RangeOne draws one intended-valid range string of the ecosystem's full range grammar
// (comparators, AND lists, OR groups, shorthands, brackets, wildcards).
func RangeOne(eco string, r *rand.Rand) string {
	syn := rangeTable[eco]
	ver := func() string {
		for k := 0; k < 8; k++ {
			s := One(eco, r)
			if !strings.ContainsAny(s, " ,|") && s != "" && !strings.ContainsAny(s[:1], "<>=!~^") {
				return s
			}
		}
		return "1.0.0"
	}
	bound := func() string {
		if chance(r, 1, 3) {
			switch eco {
			case "npm", "cargo", "composer", "conan", "gem", "hex", "pypi":
				return partial(r)
			}
		}
		return ver()
	}
	switch eco {
	case "maven", "nuget":
		a, b := ver(), ver()
		forms := []string{"[" + a + "," + b + "]", "(" + a + "," + b + ")", "[" + a + "," + b + ")", "(" + a + "," + b + "]", "[" + a + "]", "[" + a + ",)", "(" + a + ",)", "(," + b + "]", "(," + b + ")", a,
			"[" + a + ", " + b + "]", "(," + a + "],[" + b + ",)"}
		if eco == "nuget" {
			forms = append(forms, ">="+a+",<"+b, ">"+a+", <="+b, "!="+a+",", "="+a+",", a+","+b)
		}
		if eco == "maven" && chance(r, 1, 4) {
			// multi-set ranges with three to five sets (a scan over the alternatives, a hint which one matched last)
			vs := []string{ver(), ver(), ver(), ver(), ver(), ver()}
			sets := []string{"(," + vs[0] + "]", "[" + vs[1] + "," + vs[2] + "]", "[" + vs[3] + "]", "(" + vs[4] + "," + vs[5] + ")", "[" + vs[5] + ",)"}
			n := 3 + r.IntN(3)
			r.Shuffle(len(sets), func(x, y int) { sets[x], sets[y] = sets[y], sets[x] })
			return strings.Join(sets[:n], ",")
		}
		return forms[r.IntN(len(forms))]
	}
	single := func() string {
		// shorthands and wildcards first
		if chance(r, 1, 5) {
			switch eco {
			case "npm":
				return pick(r, "*", partial(r)+".x", partial(r)+".*", partial(r)+".X", ver()+" - "+ver(), partial(r)+" - "+partial(r), "^"+bound(), "~"+bound())
			case "cargo":
				return pick(r, "*", partial(r)+".*", "^"+bound(), "~"+bound())
			case "composer":
				return pick(r, "*", partial(r)+".*", partial(r)+".x", ver()+" - "+ver(), partial(r)+" - "+partial(r), "^"+bound(), "~"+bound(), "@dev", "@stable", ver()+"@beta")
			case "pypi":
				return pick(r, "=="+partial(r)+".*", "!="+partial(r)+".*", "~="+bound(), "==="+ver())
			case "semver":
				return "*"
			}
		}
		op := syn.ops[r.IntN(len(syn.ops))]
		return op + bound()
	}
	group := func() string {
		n := 1
		if len(syn.and) > 0 && chance(r, 1, 2) {
			n = 2 + r.IntN(2)
		}
		var parts []string
		for i := 0; i < n; i++ {
			parts = append(parts, single())
		}
		if n == 1 {
			return parts[0]
		}
		return strings.Join(parts, syn.and[r.IntN(len(syn.and))])
	}
	if len(syn.or) > 0 && chance(r, 1, 4) {
		n := 2 + r.IntN(2)
		var gs []string
		for i := 0; i < n; i++ {
			gs = append(gs, group())
		}
		return strings.Join(gs, syn.or[r.IntN(len(syn.or))])
	}
	return group()
}

var _ = strconv.Itoa
