package gen

import (
	"math/rand/v2"
	"regexp/syntax"
	"sort"
	"strings"
)

// Regex-derived family. The parsers of the tree under test describe their own input shapes in regular expressions
// (arguments of regexp.MustCompile / Compile). LoadDictionary collects them per package; this file samples strings
// from them, so every shape the code knows - including a shape a later change teaches it - is produced without a
// hand-written grammar. Relatives of a sample are formed with the literal tokens that occur inside the package's
// regexes ("dev-", "-dev", ".x", "SNAPSHOT") added or removed as prefix / suffix, and with a separator plus a word.

var (
	ecoRegex    = map[string][]string{} // source text of the regexes per package
	newRegex    = map[string][]string{} // those the baseline does not have
	ecoRegexAST = map[string][]*syntax.Regexp{}
	newRegexAST = map[string][]*syntax.Regexp{}
	ecoAffixes  = map[string][]string{} // literal tokens (>= 2 bytes) inside the regexes
)

func prepareRegexes() {
	for pkg, l := range ecoRegex {
		sort.Strings(l)
		seenTok := map[string]bool{}
		for _, src := range l {
			re, err := syntax.Parse(src, syntax.Perl)
			if err != nil {
				continue
			}
			ecoRegexAST[pkg] = append(ecoRegexAST[pkg], re)
			collectLiterals(re, func(tok string) {
				if !seenTok[tok] {
					seenTok[tok] = true
					ecoAffixes[pkg] = append(ecoAffixes[pkg], tok)
				}
			})
		}
		sort.Strings(ecoAffixes[pkg])
	}
	for pkg, l := range newRegex {
		for _, src := range l {
			if re, err := syntax.Parse(src, syntax.Perl); err == nil {
				newRegexAST[pkg] = append(newRegexAST[pkg], re)
			}
		}
	}
}

func collectLiterals(re *syntax.Regexp, f func(string)) {
	if re.Op == syntax.OpLiteral && len(re.Rune) >= 2 {
		s := string(re.Rune)
		ok := true
		for _, c := range s {
			if c < 0x21 || c > 0x7e {
				ok = false
			}
		}
		if ok {
			f(s)
			if re.Flags&syntax.FoldCase != 0 {
				f(strings.ToUpper(s))
			}
		}
	}
	for _, sub := range re.Sub {
		collectLiterals(sub, f)
	}
}

// SampleRegex draws one string of the regex's language (anchors and word boundaries are ignored; repetitions 0..3).
func SampleRegex(re *syntax.Regexp, r *rand.Rand) string {
	var b strings.Builder
	var walk func(re *syntax.Regexp, depth int)
	class := func(rs []rune) rune {
		if len(rs) == 0 {
			return 'a'
		}
		// prefer printable ASCII members
		for tries := 0; tries < 8; tries++ {
			k := r.IntN(len(rs) / 2)
			lo, hi := rs[2*k], rs[2*k+1]
			if lo > 0x7e {
				continue
			}
			if hi > 0x7e {
				hi = 0x7e
			}
			if lo < 0x20 {
				lo = 0x20
			}
			if lo > hi {
				continue
			}
			// digits: small numbers mostly
			if lo == '0' && hi == '9' {
				return rune("0112359"[r.IntN(7)])
			}
			return lo + rune(r.IntN(int(hi-lo)+1))
		}
		return rs[0]
	}
	walk = func(re *syntax.Regexp, depth int) {
		if depth > 30 || b.Len() > 80 {
			return
		}
		switch re.Op {
		case syntax.OpLiteral:
			s := string(re.Rune)
			if re.Flags&syntax.FoldCase != 0 && r.IntN(3) == 0 {
				s = strings.ToUpper(s)
			}
			b.WriteString(s)
		case syntax.OpCharClass:
			b.WriteRune(class(re.Rune))
		case syntax.OpAnyCharNotNL, syntax.OpAnyChar:
			b.WriteByte("a1-.x_+"[r.IntN(7)])
		case syntax.OpCapture:
			walk(re.Sub[0], depth+1)
		case syntax.OpConcat:
			for _, s := range re.Sub {
				walk(s, depth+1)
			}
		case syntax.OpAlternate:
			walk(re.Sub[r.IntN(len(re.Sub))], depth+1)
		case syntax.OpStar:
			for n := r.IntN(3); n > 0; n-- {
				walk(re.Sub[0], depth+1)
			}
		case syntax.OpPlus:
			for n := 1 + r.IntN(2); n > 0; n-- {
				walk(re.Sub[0], depth+1)
			}
		case syntax.OpQuest:
			if r.IntN(2) == 0 {
				walk(re.Sub[0], depth+1)
			}
		case syntax.OpRepeat:
			n := re.Min
			if re.Max < 0 {
				n += r.IntN(3)
			} else if re.Max > re.Min {
				n += r.IntN(min(re.Max-re.Min, 3) + 1)
			}
			for ; n > 0; n-- {
				walk(re.Sub[0], depth+1)
			}
		}
	}
	walk(re, 0)
	return b.String()
}

// RegexFamily returns samples of the package's regexes (those the baseline does not have first) and their relatives.
func RegexFamily(eco string, r *rand.Rand) []string {
	asts := ecoRegexAST[eco]
	if len(asts) == 0 {
		return nil
	}
	var out []string
	aff := ecoAffixes[eco]
	for k := 0; k < 4; k++ {
		re := asts[r.IntN(len(asts))]
		if na := newRegexAST[eco]; len(na) > 0 && r.IntN(3) > 0 {
			re = na[r.IntN(len(na))]
		}
		s := SampleRegex(re, r)
		if s == "" || len(s) > 60 {
			continue
		}
		out = append(out, s)
		// relatives: literal tokens of the package's regexes added / removed at either end, a separator and a word
		for n := 0; n < 4 && len(aff) > 0; n++ {
			t := aff[r.IntN(len(aff))]
			switch {
			case strings.HasPrefix(s, t):
				out = append(out, s[len(t):], s[len(t):]+t)
			case strings.HasSuffix(s, t):
				out = append(out, s[:len(s)-len(t)], t+s[:len(s)-len(t)])
			case r.IntN(2) == 0:
				out = append(out, t+s)
			default:
				out = append(out, s+t)
			}
		}
		n0 := len(out)
		for _, m := range out[max(0, n0-5):n0] {
			out = append(out, m+[]string{"-", ".", "_", "+", "~"}[r.IntN(5)]+[]string{"compat", "x", "1", "backports", "a", "dev"}[r.IntN(6)])
		}
	}
	return out
}
