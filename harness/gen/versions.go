// Package gen holds the workload generators. Everything is a pure function of the PRNG handed in.
package gen

import (
	"fmt"
	"math/rand/v2"
	"regexp"
	"strconv"
	"strings"
)

// pick returns one of xs; when xs is a list of words (qualifier vocabulary) it returns a word of the
// source-derived dictionary one time in six, in the letter case of the option it replaces.
func pick(r *rand.Rand, xs ...string) string {
	x := xs[r.IntN(len(xs))]
	if len(xs) >= 6 && len(x) >= 2 && isWord(x) && len(dictWords) > 0 && r.IntN(6) == 0 {
		w := DictWord(r)
		switch {
		case x == strings.ToUpper(x):
			return strings.ToUpper(w)
		case x == strings.ToLower(x):
			return strings.ToLower(w)
		}
		return w
	}
	return x
}

// pickE is pick with the dictionary of one ecosystem package.
func pickE(eco string, r *rand.Rand, xs ...string) string {
	x := xs[r.IntN(len(xs))]
	if len(xs) >= 6 && len(x) >= 2 && isWord(x) && r.IntN(6) == 0 {
		w := EcoWord(eco, r)
		switch {
		case x == strings.ToUpper(x):
			return strings.ToUpper(w)
		case x == strings.ToLower(x):
			return strings.ToLower(w)
		}
		return w
	}
	return x
}

func isWord(s string) bool {
	for i := 0; i < len(s); i++ {
		if !(s[i] >= 'a' && s[i] <= 'z' || s[i] >= 'A' && s[i] <= 'Z') {
			return false
		}
	}
	return s != ""
}
func chance(r *rand.Rand, num, den int) bool { return r.IntN(den) < num }

// Boundary is the boundary value set B of the properties.
var Boundary = []string{"0", "1", "2", "9", "10", "11", "99", "100", "999", "1000", "65535", "2147483647"}

var smallNums = []string{"0", "0", "1", "1", "2", "3", "5", "9", "10", "11", "12", "20", "99", "100"}
var leadZero = []string{"00", "01", "02", "007", "010", "0010", "09"}
var bigNums = []string{"4294967296", "9223372036854775807", "9223372036854775808", "18446744073709551615", "18446744073709551616",
	"99999999999999999999", "100000000000000000000", "099999999999999999999", "0100000000000000000000", "123456789012345678901234567890",
	"000000000000000000001", "00000000000000000000000002"}

// NumOpts selects number classes.
type NumOpts struct{ LeadZero, Big bool }

// CarryNum returns a number around a decimal carry that is NOT a pure power of ten: head followed by nines
// (199, 2999, 1099), its successor (200, 3000, 1100) or predecessor. Increment / bump helpers and digit-string
// arithmetic are exercised by these, not by 9 / 99 / 999.
func CarryNum(r *rand.Rand) string {
	head := 1 + r.IntN(9)
	if r.IntN(3) == 0 {
		head = 10 + r.IntN(110)
	}
	s := strconv.Itoa(head) + strings.Repeat("9", 1+r.IntN(4))
	switch r.IntN(4) {
	case 0:
		return decInc(s)
	case 1:
		return decDec(s)
	}
	return s
}

// DateNum returns a number shaped like a calendar date or clock time (CalVer components, build stamps):
// YYYYMMDD, YYMMDD, YYYYMM, YYYY, HHMMSS; with long set also YYYYMMDDHHMMSS.
func DateNum(r *rand.Rand, long bool) string {
	s := strings.TrimLeft(dateNum(r, long), "0")
	if s == "" {
		return "0"
	}
	return s
}

func dateNum(r *rand.Rand, long bool) string {
	y := []int{2000, 2019, 2020, 2023, 2024, 2025, 2038, 2099, 1999, 1970}[r.IntN(10)]
	if r.IntN(3) == 0 {
		y = 1990 + r.IntN(110)
	}
	mo := 1 + r.IntN(12)
	d := 1 + r.IntN(31)
	if r.IntN(4) == 0 {
		mo, d = []int{1, 12, 10, 9}[r.IntN(4)], []int{1, 31, 30, 10, 28, 29}[r.IntN(6)]
	}
	hms := fmt.Sprintf("%02d%02d%02d", r.IntN(24), r.IntN(60), r.IntN(60))
	n := 5
	if long {
		n = 6
	}
	switch r.IntN(n) {
	case 0:
		return fmt.Sprintf("%04d%02d%02d", y, mo, d)
	case 1:
		return fmt.Sprintf("%02d%02d%02d", y%100, mo, d)
	case 2:
		return fmt.Sprintf("%04d%02d", y, mo)
	case 3:
		return strconv.Itoa(y)
	case 4:
		return hms
	}
	return fmt.Sprintf("%04d%02d%02d", y, mo, d) + hms
}

// EncodingNums are the boundaries of text encodings and of the code-point space: UTF-8 length steps (127/128,
// 2047/2048, 65535/65536), the surrogate block (55296..57343) with its neighbours, U+FFFD / U+FEFF / U+FFFE, the last
// code point; a component packed as a rune or a byte sequence breaks at these and nowhere else.
var EncodingNums = []string{"127", "128", "255", "256", "2047", "2048", "55295", "55296", "55297", "56012", "56319", "56320", "57343", "57344",
	"65279", "65533", "65534", "65535", "65536", "1114111", "1114112", "60000", "57000"}

// Pow2Family returns 2^k-1, 2^k, 2^k+1 for six consecutive exponents starting at a random k in 1..58.
func Pow2Family(r *rand.Rand) []string {
	k := 1 + r.IntN(58)
	var out []string
	for e := k; e < k+6; e++ {
		p := uint64(1) << e
		out = append(out, strconv.FormatUint(p-1, 10), strconv.FormatUint(p, 10), strconv.FormatUint(p+1, 10))
	}
	return out
}

// LogNum draws a number whose BIT LENGTH is uniform in 1..maxBits (so every power-of-two band, e.g. [2^21, 2^22), is
// as likely as any other), either random inside the band or on its edges. Packed sort keys, bit-sliced fields and
// fixed-width slots fail in one band only.
func LogNum(r *rand.Rand, maxBits int) string {
	bits := 1 + r.IntN(maxBits)
	lo := uint64(1) << (bits - 1)
	switch r.IntN(6) {
	case 0:
		return strconv.FormatUint(lo, 10)
	case 1:
		return strconv.FormatUint(lo-1, 10)
	case 2:
		return strconv.FormatUint(lo<<1-1, 10)
	}
	if bits == 1 {
		return "1"
	}
	return strconv.FormatUint(lo+r.Uint64N(lo), 10)
}

// Num draws a decimal number string.
func Num(r *rand.Rand, o NumOpts) string {
	switch r.IntN(40) {
	case 0:
		return CarryNum(r)
	case 1:
		return DateNum(r, o.Big)
	case 2, 3, 4:
		if o.Big {
			return LogNum(r, 64)
		}
		return LogNum(r, 31)
	case 5:
		return EncodingNums[r.IntN(len(EncodingNums))]
	}
	k := r.IntN(100)
	if k >= 96 && len(dictNums) > 0 { // a number literal of the source (or a neighbour / power derived from it)
		n := DictNum(r)
		if len(n) <= 10 || o.Big {
			return n
		}
	}
	switch {
	case k < 55:
		return smallNums[r.IntN(len(smallNums))]
	case k < 70:
		return Boundary[r.IntN(len(Boundary))]
	case k < 80:
		return strconv.Itoa(r.IntN(1000))
	case k < 86:
		return strconv.FormatInt(r.Int64N(1<<31), 10)
	case k < 93:
		if o.LeadZero {
			return leadZero[r.IntN(len(leadZero))]
		}
		return smallNums[r.IntN(len(smallNums))]
	default:
		if o.Big {
			if r.IntN(3) == 0 {
				return BigNear(r)
			}
			return bigNums[r.IntN(len(bigNums))]
		}
		return Boundary[r.IntN(len(Boundary))]
	}
}

var bigAnchors = []string{"9223372036854775807", "18446744073709551615", "99999999999999999999", "20000000000000000000", "100000000000000000000", "9999999999999999999", "4294967295", "2147483647", "999999999999999999999"}

// BigNear returns a number within +-2 of a 32/63/64-bit or 19/20/21-digit boundary (string arithmetic).
func BigNear(r *rand.Rand) string {
	a := bigAnchors[r.IntN(len(bigAnchors))]
	for k := r.IntN(5); k > 0; k-- {
		if r.IntN(2) == 0 {
			a = decInc(a)
		} else {
			a = decDec(a)
		}
	}
	return a
}

// BigFamily returns n numbers within +-3 of ONE boundary anchor (same-length neighbours).
func BigFamily(r *rand.Rand, n int) []string {
	a := bigAnchors[r.IntN(len(bigAnchors))]
	out := []string{a}
	x, y := a, a
	for len(out) < n {
		x, y = decInc(x), decDec(y)
		out = append(out, x, y)
	}
	if r.IntN(3) == 0 {
		out = append(out, "0"+a, "00"+x)
	}
	return out
}

// LongRunFamily returns n digit runs of ONE length between 20 and 90 digits that differ from a common random base
// in a single digit placed at the head, in the middle or at the tail (word-wise big-number arithmetic: a run split
// into machine words is wrong only when the words that differ are the ones that overflow or are dropped).
func LongRunFamily(r *rand.Rand, n int) []string {
	l := 20 + r.IntN(71)
	b := make([]byte, l)
	for i := range b {
		b[i] = byte('0' + r.IntN(10))
	}
	b[0] = byte('1' + r.IntN(8))
	out := []string{string(b)}
	for len(out) < n {
		c := append([]byte(nil), b...)
		pos := []int{0, 1, l / 2, l - 20, l - 19, l - 1}[r.IntN(6)]
		if pos < 0 {
			pos = 0
		}
		if c[pos] == '9' {
			c[pos] = '8'
		} else {
			c[pos]++
		}
		out = append(out, string(c))
	}
	return out
}

func decInc(d string) string {
	b := []byte(d)
	for i := len(b) - 1; i >= 0; i-- {
		if b[i] != '9' {
			b[i]++
			return string(b)
		}
		b[i] = '0'
	}
	return "1" + string(b)
}

func decDec(d string) string {
	b := []byte(d)
	for i := len(b) - 1; i >= 0; i-- {
		if b[i] != '0' {
			b[i]--
			s := strings.TrimLeft(string(b), "0")
			if s == "" {
				return "0"
			}
			return s
		}
		b[i] = '9'
	}
	return "0"
}

func core(r *rand.Rand, min, max int, o NumOpts) []string {
	n := min
	if max > min {
		n += r.IntN(max - min + 1)
	}
	c := make([]string, n)
	for i := range c {
		c[i] = Num(r, o)
	}
	return c
}

func mixCase(r *rand.Rand, s string) string {
	switch r.IntN(4) {
	case 0:
		return strings.ToUpper(s)
	case 1:
		if len(s) > 0 {
			return strings.ToUpper(s[:1]) + s[1:]
		}
	}
	return s
}

var semverIdents = []string{"0", "1", "2", "9", "10", "11", "123456789012345678", "alpha", "beta", "rc", "a", "b", "x", "Alpha", "RC", "BETA",
	"a-b", "-5", "-", "--", "1a", "a1", "0a", "rc1", "rc-1", "next", "pre", "dev", "SNAPSHOT", "snapshot", "0-0", "-0", "x86", "X",
	// numeric identifiers beyond 63 / 64 bits with different digit counts, and alphanumeric identifiers that START with
	// a digit and sort bytewise between them (int order, decimal order and byte order must not be mixed)
	"9999999999999999999", "20240115123456789012", "18446744073709551616", "100000000000000000000", "9223372036854775808", "99999999999999999999999",
	"5-g1a2b3c4", "1e1", "9z", "2x", "10a", "1-1", "5-", "0x10",
	// git describe stamps (<commits>-g<hash>[-dirty]): numeric-looking prefixes inside alphanumeric identifiers
	"9-g2414721", "10-g2414721", "14-g2414721", "5-g2414721-dirty", "100-gabcdef0", "9-G2414721"}

// SemverPre draws 1..n dot-separated pre-release identifiers.
func SemverPre(r *rand.Rand, max int) string {
	n := 1 + r.IntN(max)
	ids := make([]string, n)
	for i := range ids {
		ids[i] = semverIdents[r.IntN(len(semverIdents))]
		if r.IntN(10) == 0 && len(dictWords) > 0 {
			ids[i] = DictWord(r)
		} else if r.IntN(14) == 0 && len(dictNums) > 0 {
			if n := DictNum(r); len(n) <= 18 {
				ids[i] = n
			}
		}
	}
	return strings.Join(ids, ".")
}

func semverBuild(r *rand.Rand) string {
	return pick(r, "build", "1", "b.2", "-x", "001", "20240101.abc", "exp.sha.5114f85", "B")
}

var unknownWords = []string{"foo", "bar", "xyz", "zzz", "aaa", "preview", "nightly", "canary", "edge", "Foo", "ZETA", "q"}

// One draws one intended-valid version string of the ecosystem.
func One(eco string, r *rand.Rand) string {
	if r.IntN(40) == 0 { // an ordinary x.y.z whose text has an extreme 32-bit hash or collides with another one (collide.go)
		if r.IntN(2) == 0 {
			if f := ExtremeFamily(r, 1); len(f) > 0 {
				return f[0]
			}
		} else if f := CollisionFamily(eco, r, 1); len(f) > 0 {
			return f[r.IntN(len(f))]
		}
	}
	lzb := NumOpts{LeadZero: true, Big: true}
	lz := NumOpts{LeadZero: true}
	switch eco {
	case "semver", "cargo", "npm", "golang", "hex":
		o := NumOpts{LeadZero: eco != "semver", Big: true}
		s := strings.Join(core(r, 3, 3, o), ".")
		if eco == "hex" && chance(r, 1, 8) {
			s = strings.Join(core(r, 2, 2, o), ".")
			return s
		}
		if eco == "golang" && chance(r, 1, 4) {
			return GoPseudo(r)
		}
		if chance(r, 3, 5) {
			s += "-" + SemverPre(r, 4)
		}
		if chance(r, 1, 5) {
			s += "+" + semverBuild(r)
		}
		switch eco {
		case "npm":
			s = pickE(eco, r, "", "", "v", "=", "=v") + s
		case "golang":
			s = pickE(eco, r, "v", "v", "") + s
		}
		return s
	case "nuget":
		s := strings.Join(core(r, 1, 4, lzb), ".")
		if chance(r, 1, 2) {
			if chance(r, 1, 3) {
				s += "-" + SemverPre(r, 4) // mixed letter case (C01/C07; C08 filters it out)
			} else {
				s += "-" + strings.ToLower(SemverPre(r, 4))
			}
		}
		if chance(r, 1, 5) {
			s += "+" + semverBuild(r)
		}
		return pickE(eco, r, "", "", "", "v") + s
	case "conan":
		c := core(r, 1, 5, lzb)
		if chance(r, 1, 5) {
			k := r.IntN(len(c))
			c[k] = c[k] + pickE(eco, r, "a", "b", "rc", "x") // alphanumeric part
		}
		if chance(r, 1, 10) {
			c[len(c)-1] = pickE(eco, r, "a", "b", "beta", "z")
		}
		s := strings.Join(c, ".")
		if chance(r, 2, 5) {
			s += "-" + mixCase(r, strings.ToLower(SemverPre(r, 3)))
		}
		if chance(r, 1, 5) {
			s += "+" + strings.ToLower(semverBuild(r))
		}
		return s
	case "apache":
		s := strings.Join(core(r, 3, 3, lz), ".")
		if chance(r, 3, 5) {
			q := pickE(eco, r, "alpha", "beta", "M", "milestone", "RC", "rc", "SNAPSHOT", "dev", "ALPHA", "Beta", "m", "snapshot", "foo", "final", "GA")
			s += "-" + q
			switch r.IntN(4) {
			case 0:
				s += Num(r, lz)
			case 1:
				s += "v2023041" + pickE(eco, r, "5", "6")
			}
		}
		return s
	case "github":
		if chance(r, 1, 6) {
			return pickE(eco, r, "", "v") + pickE(eco, r, "2023", "2024", "1999", "2025") + "." + pickE(eco, r, "1", "01", "12", "6", "06") + "." + pickE(eco, r, "1", "01", "15", "31", "28")
		}
		s := pickE(eco, r, "", "v", "release-", "rel-") + strings.Join(core(r, 3, 3, lz), ".")
		if chance(r, 3, 5) {
			q := mixCase(r, pickE(eco, r, "alpha", "beta", "rc", "dev", "snapshot", "foo", "pre", "m"))
			s += pickE(eco, r, "-", ".") + q
			if chance(r, 1, 2) {
				s += pickE(eco, r, "", ".") + Num(r, lz)
			}
		}
		return s
	case "mattermost":
		s := pickE(eco, r, "", "v") + strings.Join(core(r, 3, 3, NumOpts{}), ".")
		if chance(r, 1, 2) {
			s += "-" + pickE(eco, r, "rc", "esr")
			if chance(r, 2, 3) {
				s += Num(r, lz)
			}
		}
		return s
	case "cran":
		c := core(r, 2, 5, lzb)
		s := c[0]
		for _, x := range c[1:] {
			s += pickE(eco, r, ".", ".", "-") + x
		}
		return s
	case "gentoo":
		s := strings.Join(core(r, 1, 5, lz), ".")
		if chance(r, 1, 4) {
			s += pickE(eco, r, "a", "b", "z", "A", "k")
		}
		if chance(r, 1, 2) {
			s += "_" + pickE(eco, r, "alpha", "beta", "pre", "rc", "p")
			if chance(r, 2, 3) {
				s += Num(r, lz)
			}
		}
		if chance(r, 1, 3) {
			s += "-r" + Num(r, lz)
		}
		return s
	case "alpine":
		if chance(r, 1, 12) { // string-sort fallback forms
			return pickE(eco, r, "1.0bc", "5xx", "1.0_foo-bar", "1..2", "1.0-r", "abc1", "1.0_", "1.0__p1", "1.0A", "v1.2", "1.0-rc1", "10xx", "9z9")
		}
		s := strings.Join(core(r, 1, 5, lzb), ".")
		if chance(r, 1, 4) {
			s += pickE(eco, r, "a", "b", "z", "k")
		}
		for k := r.IntN(4); k > 0; k-- {
			s += "_" + pickE(eco, r, "alpha", "beta", "pre", "rc", "cvs", "svn", "git", "hg", "p", "p", "rc", "foo", "zzz")
			if chance(r, 2, 3) {
				s += Num(r, lz)
			}
		}
		if chance(r, 1, 10) {
			s += "~" + pickE(eco, r, "abc123", "0", "deadbeef", "f")
		}
		if chance(r, 1, 3) {
			s += "-r" + Num(r, lz)
		}
		return s
	case "alpm":
		s := ""
		if chance(r, 1, 6) {
			s = pickE(eco, r, "0:", "1:", "2:", "01:")
		}
		n := 1 + r.IntN(5)
		for i := 0; i < n; i++ {
			if i > 0 {
				s += pickE(eco, r, ".", ".", ".", "_", "+", "", "")
			}
			if chance(r, 3, 4) {
				s += Num(r, lzb)
			} else {
				s += pickE(eco, r, "a", "b", "alpha", "beta", "rc", "pre", "p", "git", "r")
			}
		}
		if !strings.ContainsAny(s[len(s)-1:], "0123456789abcdefghijklmnopqrstuvwxyz") {
			s += "1"
		}
		if chance(r, 1, 2) {
			s += "-" + pickE(eco, r, "1", "2", "3", "10", "0", "01")
		}
		return s
	case "debian", "rpm":
		s := ""
		if chance(r, 1, 6) {
			s = pickE(eco, r, "0:", "1:", "2:", "01:")
		}
		seps := []string{".", ".", ".", "+", "~", "~~", ""}
		if eco == "rpm" {
			seps = []string{".", ".", ".", "+", "~", "^", "_", "", "..", "~~"}
		}
		part := func(first bool) string {
			n := 1 + r.IntN(5)
			p := ""
			for i := 0; i < n; i++ {
				if i > 0 {
					p += seps[r.IntN(len(seps))]
				}
				if first && i == 0 || chance(r, 2, 3) {
					p += Num(r, lzb)
				} else {
					p += pickE(eco, r, "a", "b", "rc", "A", "z", "Z", "alpha", "beta", "git", "dfsg", "ubuntu", "el", "fc")
				}
			}
			if chance(r, 1, 12) {
				p += pickE(eco, r, "~", "+", ".")
				if eco == "rpm" {
					p += pickE(eco, r, "", "^", "~")
				}
			}
			return p
		}
		s += part(true)
		if chance(r, 1, 2) {
			if eco == "debian" && chance(r, 1, 6) {
				s += "-" + part(false) // extra hyphen inside upstream
			}
			s += "-" + part(false)
		}
		return s
	case "gem":
		s := strings.Join(core(r, 1, 5, lzb), ".")
		for k := r.IntN(3); k > 0; k-- {
			w := pickE(eco, r, "rc", "pre", "alpha", "beta", "a", "b", "dev", "preview", "RC", "Beta")
			switch r.IntN(4) {
			case 0:
				s += "." + w
			case 1:
				s += "." + w + Num(r, lz)
			case 2:
				s += "." + w + "." + Num(r, lz)
			case 3:
				s += "-" + w
				if chance(r, 1, 2) {
					s += pickE(eco, r, ".", "") + Num(r, lz)
				}
			}
		}
		if chance(r, 1, 10) {
			s += "+" + pickE(eco, r, "build", "1", "b.2")
		}
		return pickE(eco, r, "", "", "", "v") + s
	case "maven":
		s := strings.Join(core(r, 1, 4, lzb), ".")
		switch r.IntN(5) {
		case 0:
			return s
		case 1:
			return s + "-" + Num(r, lz)
		}
		if chance(r, 1, 12) {
			// unique (timestamped) snapshot as deployed to a repository: <base>-<yyyyMMdd.HHmmss>-<build>, next to the
			// literal <base>-SNAPSHOT it stands for
			s = pick(r, "1.0", "1.0", "2.1.3", s)
			if chance(r, 1, 4) {
				return s + "-SNAPSHOT"
			}
			return s + "-" + pick(r, "20240115", "20240301", "20231231", "20240115") + "." + pick(r, "123456", "080000", "235959", "000000") + "-" + pick(r, "1", "2", "7", "10")
		}
		q := pickE(eco, r, "alpha", "beta", "milestone", "rc", "cr", "snapshot", "ga", "final", "release", "sp", "foo", "bar", "xyz", "a", "b", "m")
		single := len(q) == 1
		q = mixCase(r, q)
		sep := pickE(eco, r, ".", "-")
		switch r.IntN(4) {
		case 0:
			if single {
				return s + sep + q + Num(r, NumOpts{})
			}
			return s + sep + q
		case 1:
			return s + sep + q + Num(r, lz)
		case 2:
			if single {
				return s + sep + q + Num(r, NumOpts{})
			}
			return s + sep + q + "." + Num(r, lz)
		default:
			if single {
				return s + sep + q + Num(r, NumOpts{})
			}
			return s + sep + q + "-" + Num(r, lz)
		}
	case "pypi":
		s := ""
		if chance(r, 1, 6) {
			s = pickE(eco, r, "0!", "1!", "2!")
		}
		s += strings.Join(core(r, 1, 5, lzb), ".")
		dot := func() string { return pickE(eco, r, "", ".") }
		if chance(r, 1, 2) {
			s += dot() + pickE(eco, r, "a", "b", "rc", "alpha", "beta", "c") + Num(r, lz)
		}
		if chance(r, 1, 3) {
			s += dot() + pickE(eco, r, "post", "rev", "r") + Num(r, lz)
		}
		if chance(r, 1, 3) {
			s += dot() + "dev" + Num(r, lz)
		}
		if chance(r, 1, 4) {
			s += "+" + pickE(eco, r, "abc", "1", "2", "10", "abc.1", "abc-2", "1.abc", "ABC", "a_b", "01", "1.0", "ubuntu.1")
		}
		return s
	case "composer":
		if chance(r, 1, 12) {
			return pickE(eco, r, "dev-main", "dev-master", "dev-feature/x", "main", "master", "feature-foo", "1.x-dev", "dev-fix", "release/1.0",
				"dev-2.x", "dev-10.x", "dev-1.9.x", "dev-1.10.x", "dev-15-fix-login", "dev-11", "dev-1a", "2.x-dev", "10.x-dev", "dev-9.x",
				"feature/a.x", "release/1.x", "feature/login.x", "hotfix/2.0.x")
		}
		s := pickE(eco, r, "", "", "v") + strings.Join(core(r, 1, 4, lz), ".")
		switch r.IntN(5) {
		case 0, 1:
		case 2:
			s += "-" + pickE(eco, r, "alpha", "beta", "RC", "a", "b", "rc", "dev", "patch")
			if chance(r, 2, 3) {
				s += pickE(eco, r, "", ".") + Num(r, lz)
			}
		case 3:
			s += pickE(eco, r, "alpha", "beta", "RC", "a", "b", "rc", "dev", "pl") + pickE(eco, r, "", Num(r, lz))
		case 4:
			s += "+" + semverBuild(r)
		}
		return s
	}
	panic("gen.One: unknown ecosystem " + eco)
}

// GoPseudo draws a Go pseudo-version (all three forms).
func GoPseudo(r *rand.Rand) string {
	// boundary instants: the zero time.Time (the go command's placeholder v0.0.0-00010101000000-000000000000), the Unix
	// epoch, the reference layout time, the last representable second
	ts := pick(r, "20240101120000", "20240101120001", "20231231235959", "20191109021931", "20240229000000",
		"00010101000000", "19700101000000", "20060102150405", "99991231235959", "00010101000001")
	h := pick(r, "abcdefabcdef", "0123456789ab", "ffffffffffff", "abcdefabcde0", "000000000000")
	switch r.IntN(3) {
	case 0:
		return fmt.Sprintf("v%s.0.0-%s-%s", pick(r, "0", "1", "2"), ts, h)
	case 1:
		return fmt.Sprintf("v%s.%s.%s-%s.0.%s-%s", pick(r, "0", "1", "2"), pick(r, "0", "1", "2"), pick(r, "0", "1", "3"), pick(r, "pre", "rc1", "alpha", "beta", "5", "10", "0", "1", "9", "11", "0.0", "2", "x", "rc.1", "20240101120000-abcdefabcdef", "20191109021931-0123456789ab", ts+"-"+h), ts, h)
	default:
		return fmt.Sprintf("v%s.%s.%s-0.%s-%s", pick(r, "0", "1", "2"), pick(r, "0", "1", "2"), pick(r, "1", "2", "3"), ts, h)
	}
}

// Markers lists, per ecosystem, the pre-release and post-release marker spellings the parser
// accepts when appended to a plain numeric version (C03 marker table; %N is an optional number slot).
type MarkerSet struct {
	Pre, Post []string
}

// MarkerTable is written from each parser's grammar and upstream docs.
var MarkerTable = map[string]MarkerSet{
	"alpine":     {Pre: []string{"_alpha", "_alpha1", "_beta", "_beta2", "_pre", "_pre1", "_rc", "_rc2", "_rc10"}, Post: []string{"_p", "_p1", "_cvs", "_svn", "_git", "_hg", "_p10", "-r1", "-r10", "_git20240101"}},
	"alpm":       {Pre: []string{"a", "alpha", "beta", "pre", "rc", "rc1", "beta2", "rc-1", "beta-2"}, Post: nil},
	"apache":     {Pre: []string{"-alpha", "-alpha1", "-beta", "-beta2", "-RC1", "-rc1", "-M1", "-milestone2", "-SNAPSHOT", "-dev", "-ALPHA", "-Beta1"}, Post: nil},
	"cargo":      {Pre: []string{"-alpha", "-alpha.1", "-rc1", "-rc.1", "-0", "-SNAPSHOT", "-beta.2", "-pre", "-1", "-a.b.c"}, Post: nil},
	"composer":   {Pre: []string{"-alpha", "-alpha1", "-beta", "-beta.2", "-RC1", "-rc1", "a1", "b2", "rc1", "RC2", "-dev", "alpha1", "beta3", "-a1", "-b"}, Post: []string{"-patch1", "pl1", "-patch2", "pl2", "-patch", "pl"}},
	"conan":      {Pre: []string{"-alpha", "-rc.1", "-rc1", "-pre", "-0", "-beta.2", "-1"}, Post: nil},
	"cran":       {},
	"debian":     {Pre: []string{"~rc1", "~", "~~", "~beta", "~1", "~a"}, Post: []string{"-1", "+b1", "+dfsg", "-0ubuntu1", "+1", ".1", "a", "-1~bpo1"}},
	"gem":        {Pre: []string{".rc1", ".pre", "-rc1", ".alpha.1", ".a", ".beta", ".rc.2", "-alpha", ".pre1", ".b1", "-beta.2"}, Post: nil},
	"gentoo":     {Pre: []string{"_alpha", "_alpha1", "_beta", "_beta2", "_pre", "_pre3", "_rc", "_rc1", "_rc10"}, Post: []string{"_p", "_p1", "_p10", "-r1", "-r10", "_p20240101"}},
	"github":     {Pre: []string{"-alpha", "-beta.1", "-RC1", "-rc1", "-rc.1", "-SNAPSHOT", "-dev", ".rc1", ".beta", "-alpha.2", "-Beta"}, Post: nil},
	"golang":     {Pre: []string{"-alpha", "-alpha.1", "-rc1", "-rc.1", "-0", "-pre", "-beta.2", "-0.20240101120000-abcdefabcdef"}, Post: nil},
	"hex":        {Pre: []string{"-alpha", "-alpha.1", "-rc1", "-rc.1", "-0", "-beta.2", "-dev"}, Post: nil},
	"mattermost": {Pre: []string{"-rc", "-rc1", "-rc2", "-rc10"}, Post: nil},
	"maven":      {Pre: []string{"-alpha-1", "-alpha", "-a1", "-beta1", "-beta-2", "-b2", "-M1", "-m1", "-milestone-1", "-rc1", "-RC1", "-cr1", "-SNAPSHOT", "-snapshot", ".alpha1", ".RC1", ".rc-1", "-Alpha", "-BETA-1", "-CR2"}, Post: []string{"-sp", "-sp1", "-1", "-SP2", "-sp-1", "-2", ".sp1"}},
	"npm":        {Pre: []string{"-alpha", "-alpha.1", "-rc1", "-rc.1", "-0", "-SNAPSHOT", "-beta.2", "-next.1", "-x", "-1"}, Post: nil},
	"nuget":      {Pre: []string{"-alpha", "-alpha.1", "-rc1", "-rc.1", "-0", "-beta.2", "-preview.3", "-1"}, Post: nil},
	"pypi":       {Pre: []string{"a1", ".a1", "b1", "rc1", "c1", "alpha1", "beta1", ".dev1", "dev1", ".rc2", "a0", ".b2", ".dev0", "a1.dev1", "rc1.dev2", ".c3"}, Post: []string{".post1", "post1", ".rev1", ".r1", "r1", ".post0", "rev2", ".post10", "+local", "+1"}},
	"rpm":        {Pre: []string{"~rc1", "~", "~~", "~beta", "~1"}, Post: []string{"-1", "+b1", ".1", "^git1", "^", "^1", "-1.el8", "a", ".a"}},
	"semver":     {Pre: []string{"-alpha", "-alpha.1", "-rc1", "-rc.1", "-0", "-SNAPSHOT", "-beta.2", "-1", "-a.b.c"}, Post: nil},
}

// Arity gives the component counts C03 claims per ecosystem.
var Arity = map[string][2]int{
	"alpine": {1, 5}, "conan": {1, 5}, "gentoo": {1, 5}, "gem": {1, 5}, "pypi": {1, 5}, "maven": {1, 5}, "debian": {1, 5}, "rpm": {1, 5}, "alpm": {1, 5},
	"cran": {2, 5}, "composer": {1, 4}, "nuget": {1, 4}, "hex": {2, 3},
	"apache": {3, 3}, "github": {3, 3}, "mattermost": {3, 3}, "semver": {3, 3}, "npm": {3, 3}, "cargo": {3, 3}, "golang": {3, 3},
}

// Respell returns order-preserving (intended) respellings of s (Appendix B); equality is always
// discovered with Compare, never assumed.
func Respell(eco, s string, r *rand.Rand) []string {
	var out []string
	add := func(x string) {
		if x != s {
			out = append(out, x)
		}
	}
	switch eco {
	case "npm", "nuget", "gem", "golang", "github", "mattermost", "composer":
		if strings.HasPrefix(s, "v") {
			add(s[1:])
		} else {
			add("v" + s)
		}
	}
	if eco == "npm" {
		add("=" + s)
	}
	switch eco {
	case "pypi", "maven", "gem", "composer", "nuget", "conan", "gentoo", "alpine", "debian", "rpm":
		// trailing .0 on a purely numeric string
		if isDotted(s) {
			add(s + ".0")
			if strings.HasSuffix(s, ".0") {
				add(strings.TrimSuffix(s, ".0"))
			}
		}
	}
	switch eco {
	case "semver", "npm", "cargo", "golang", "hex", "nuget", "conan", "composer":
		if !strings.Contains(s, "+") {
			add(s + "+build.1")
		}
	}
	// letter-case variants (every ecosystem: C01 names mixed letter case; whether they are accepted and
	// how they compare is observed, never assumed)
	add(strings.ToUpper(s))
	add(strings.ToLower(s))
	if k := strings.IndexAny(s, "abcdefghijklmnopqrstuvwxyz"); k >= 0 && !(k == 0 && s[0] == 'v') {
		add(s[:k] + strings.ToUpper(s[k:k+1]) + s[k+1:])
	}
	if eco == "alpm" {
		if k := strings.LastIndexByte(s, '-'); k > 0 {
			add(s[:k])
			add(s[:k] + "-" + pick(r, "1", "2", "3"))
		} else {
			add(s + "-1")
			add(s + "-3")
		}
	}
	switch eco {
	case "maven":
		for _, p := range [][2]string{{"-alpha-", "-a"}, {"-beta-", "-b"}, {"-milestone-", "-m"}, {"-rc", "-cr"}, {"-rc", ".rc"}, {"-rc", "-rc-"}, {"-ga", ""}, {"-final", ""}, {"-release", ""}} {
			if strings.Contains(strings.ToLower(s), p[0]) {
				add(strings.Replace(strings.ToLower(s), p[0], p[1], 1))
			}
		}
	case "pypi":
		for _, p := range [][2]string{{"alpha", "a"}, {"beta", "b"}, {"rc", "c"}, {".post", ".rev"}, {".post", ".r"}, {".post", "post"}, {".dev", "dev"}, {"a", ".a"}, {"b", ".b"}, {"rc", ".rc"}} {
			if strings.Contains(s, p[0]) {
				add(strings.Replace(s, p[0], p[1], 1))
			}
		}
	case "cran":
		add(strings.ReplaceAll(s, "-", "."))
		add(strings.Replace(s, ".", "-", 1))
	case "github":
		add(strings.Replace(s, "-rc.", "-rc", 1))
		add(strings.Replace(s, "-", ".", 1))
	case "composer":
		for _, p := range [][2]string{{"-beta", "b"}, {"-alpha", "a"}, {"-beta", "-b"}, {"-alpha", "-a"}, {"-RC", "rc"}, {"-rc", "RC"}} {
			if strings.Contains(s, p[0]) {
				add(strings.Replace(s, p[0], p[1], 1))
			}
		}
	case "gem":
		// gem reads '-' as ".pre.": 2.0-1 == 2.0.pre.1 == 2.0.pre1
		if i := strings.Index(s, "-"); i > 0 {
			add(s[:i] + ".pre." + s[i+1:])
			add(s[:i] + ".pre" + s[i+1:])
		}
		if i := strings.Index(s, ".pre."); i > 0 {
			add(s[:i] + "-" + s[i+5:])
		}
	case "debian":
		if !strings.Contains(s, "-") {
			add(s + "-0")
		}
		if !strings.Contains(s, ":") {
			add("0:" + s)
		}
	case "rpm", "alpm":
		if !strings.Contains(s, ":") {
			add("0:" + s)
		}
	}
	// leading zero on the first number
	switch eco {
	case "debian", "rpm", "pypi", "conan", "gem", "cran", "maven", "alpm", "gentoo", "cargo", "npm", "nuget", "composer", "apache", "github":
		if len(s) > 0 && s[0] >= '0' && s[0] <= '9' {
			add("0" + s)
		}
		if k := strings.IndexByte(s, '.'); k >= 0 && k+1 < len(s) && s[k+1] >= '0' && s[k+1] <= '9' {
			add(s[:k+1] + "0" + s[k+1:])
		}
	}
	_ = r
	return out
}

func isDotted(s string) bool {
	if s == "" {
		return false
	}
	for _, c := range []byte(s) {
		if !(c >= '0' && c <= '9' || c == '.') {
			return false
		}
	}
	return s[0] != '.' && s[len(s)-1] != '.'
}

// denseSymbols are the syntax-relevant building blocks of each ecosystem's tail grammar.
var denseSymbols = map[string][]string{
	"rpm":      {"a", "b", "1", "0", "2", ".", "_", "+", "~", "^", "-", "rc"},
	"debian":   {"a", "b", "1", "0", "2", ".", "+", "~", "-", "A"},
	"alpm":     {"a", "b", "1", "0", "2", ".", "_", "+", "-1", "rc"},
	"gem":      {"a", "b", "1", "0", "2", ".", "-", "rc", "pre"},
	"maven":    {"a", "b", "1", "0", "2", ".", "-", "rc", "sp", "foo", "ga"},
	"alpine":   {"a", "b", "1", "0", "2", ".", "_p", "_rc", "_alpha", "-r1", "_git"},
	"gentoo":   {"a", "b", "1", "0", ".", "_p", "_rc", "_alpha", "-r1"},
	"pypi":     {"a", "b", "rc", "1", "0", ".", ".post", ".dev", "+", "c"},
	"conan":    {"a", "b", "1", "0", "2", ".", "-", "+"},
	"composer": {"a", "b", "1", "0", ".", "-", "RC", "beta", "pl", "-patch"},
	"cran":     {"1", "0", "2", ".", "-", "10"},
}
var denseDefault = []string{"a", "b", "1", "0", "2", ".", "-", "+", "rc", "A"}

// Dense enumerates ALL tails of up to 3 symbols over a random 4-symbol subset of the ecosystem's tail
// alphabet and appends them to one base: a dense local neighbourhood in which adjacency rules (letter next
// to letter vs letter-separator-letter, digit next to letter, doubled separators ...) all meet each other.
func Dense(eco, base string, r *rand.Rand) []string {
	syms := denseSymbols[eco]
	if syms == nil {
		syms = denseDefault
	}
	pickd := r.Perm(len(syms))[:4]
	sub := make([]string, 4)
	for i, k := range pickd {
		sub[i] = syms[k]
	}
	var out []string
	for _, a := range sub {
		out = append(out, base+a)
		for _, b := range sub {
			out = append(out, base+a+b)
			for _, c := range sub {
				out = append(out, base+a+b+c)
			}
		}
	}
	return out
}

// AlignLadder returns one dense neighbourhood (a base with every tail of up to 3 symbols over 4 of the ecosystem's tail
// symbols, 84 spellings) at ALL alignments: the first number of every member is lengthened by the same k digits for a run
// of consecutive k, so the position where two neighbours start to differ takes every offset modulo 16 (and, over several
// ladders, modulo 32 / 64). Block-wise prefix skipping and word-wise comparison loops are correct except at one offset.
func AlignLadder(eco string, r *rand.Rand) []string {
	ar := Arity[eco]
	c := core(r, ar[0], ar[1], NumOpts{})
	if c[0] == "0" || len(c[0]) > 2 {
		c[0] = pick(r, "1", "3", "12")
	}
	base := strings.Join(c, ".")
	if r.IntN(3) == 0 {
		base += pickE(eco, r, "-", ".", "_", "+", "") + pickE(eco, r, "alpha", "rc", "beta", "a", "b", "p", "r")
	}
	if eco == "golang" {
		base = "v" + base
	}
	dense := Dense(eco, base, r)
	if len(dense) > 40 {
		r.Shuffle(len(dense), func(a, b int) { dense[a], dense[b] = dense[b], dense[a] })
		dense = dense[:40]
	}
	dense = append(dense, base)
	out := append([]string{}, dense...)
	k0 := r.IntN(3)
	for k := k0 + 1; k <= k0+15; k++ {
		for _, m := range dense {
			if a := alignShift(m, k); a != "" {
				out = append(out, a)
			}
		}
	}
	return out
}

// OfLength returns candidate spellings of exactly n bytes built from base by stretching one part (a numeric
// component with leading zeros or more digits, a qualifier word, build metadata, a separator-joined tail); which
// of them the parser accepts is observed by the caller.
func OfLength(base string, n int) []string {
	k := n - len(base)
	if k <= 0 {
		return nil
	}
	var out []string
	rep := func(ch string, m int) string {
		if m < 0 {
			m = 0
		}
		return strings.Repeat(ch, m)
	}
	out = append(out,
		base+rep("0", k),           // more digits on the last number
		rep("0", k)+base,           // leading zeros on the first number
		base+"."+rep("1", k-1),     // one more long component
		base+"-"+rep("a", k-1),     // long qualifier
		base+"+"+rep("b", k-1),     // long build metadata / local label
		base+"a"+rep("z", k-1),     // glued letters
		base+"_p"+rep("1", k-2),    // alpine / gentoo style suffix number
		base+"~"+rep("1", k-1),     // debian / rpm tilde tail
		base+"-1."+rep("2", k-3),   // revision / release tail
		base+".post"+rep("1", k-5), // pypi
		base+"-rc."+rep("1", k-4),
	)
	var ok []string
	for _, s := range out {
		if len(s) == n {
			ok = append(ok, s)
		}
	}
	return ok
}

// Cluster emits a base and 20-60 near-identical neighbours (order bugs live between neighbours).
func Cluster(eco string, r *rand.Rand) []string {
	ar := Arity[eco]
	no := NumOpts{}
	if chance(r, 1, 4) {
		no = NumOpts{LeadZero: true, Big: true}
	}
	c := core(r, ar[0], ar[1], no)
	base := strings.Join(c, ".")
	if eco == "cran" && chance(r, 1, 3) {
		base = strings.Replace(base, ".", "-", 1)
	}
	out := []string{base}
	ms := MarkerTable[eco]
	for _, m := range ms.Pre {
		if chance(r, 2, 3) {
			out = append(out, base+m)
		}
	}
	for _, m := range ms.Post {
		if chance(r, 2, 3) {
			out = append(out, base+m)
		}
	}
	// last component ±1, 10n ; one more / fewer component
	bump := func(i int, f func(int64) int64) {
		n, err := strconv.ParseInt(c[i], 10, 64)
		if err != nil {
			if len(c[i]) > 0 && c[i][0] >= '0' && c[i][0] <= '9' {
				d := append([]string{}, c...)
				d[i] = decInc(c[i])
				out = append(out, strings.Join(d, "."))
				d = append([]string{}, c...)
				d[i] = decDec(c[i])
				out = append(out, strings.Join(d, "."))
			}
			return
		}
		d := append([]string{}, c...)
		d[i] = strconv.FormatInt(f(n), 10)
		out = append(out, strings.Join(d, "."))
		if len(ms.Pre) > 0 && chance(r, 1, 2) {
			out = append(out, strings.Join(d, ".")+ms.Pre[r.IntN(len(ms.Pre))])
		}
	}
	i := r.IntN(len(c))
	bump(i, func(n int64) int64 { return n + 1 })
	bump(i, func(n int64) int64 {
		if n > 0 {
			return n - 1
		}
		return 0
	})
	bump(len(c)-1, func(n int64) int64 { return n*10 + 1 })
	bump(i, func(n int64) int64 { return n * 10 })  // 1.1 / 1.10 / 1.100: trailing zero DIGITS are not trailing zero COMPONENTS
	bump(i, func(n int64) int64 { return n * 100 }) // (cut-set trimming, "strip .0" helpers)
	if len(c) < ar[1] {
		out = append(out, base+".0", base+".1")
	}
	if len(c) > ar[0] {
		out = append(out, strings.Join(c[:len(c)-1], "."))
	}
	// big-number family: the same base with one component replaced by neighbours of a 32/64-bit or
	// 19/20/21-digit boundary
	if chance(r, 1, 5) {
		i := r.IntN(len(c))
		for _, bn := range BigFamily(r, 5) {
			d := append([]string{}, c...)
			d[i] = bn
			out = append(out, strings.Join(d, "."))
			if len(ms.Post) > 0 && chance(r, 1, 3) {
				out = append(out, strings.Join(d, ".")+ms.Post[r.IntN(len(ms.Post))])
			}
		}
	}
	if chance(r, 1, 6) {
		out = append(out, Dense(eco, base, r)...)
	}
	// power-of-two family: one component runs through 2^k-1, 2^k, 2^k+1 for six consecutive k (every k in 1..63 is
	// reached within a few dozen clusters); encoding family: the same for the boundaries of UTF-8 and the code-point space
	if chance(r, 1, 6) {
		i := r.IntN(len(c))
		fam := Pow2Family(r)
		if chance(r, 1, 3) {
			fam = EncodingNums
		}
		for _, n := range fam {
			if len(n) > 18 && !no.Big {
				continue
			}
			d := append([]string{}, c...)
			d[i] = n
			out = append(out, strings.Join(d, "."))
		}
	}
	// hash-collision family: ordinary versions whose texts collide under a common 32-bit hash (collide.go)
	if chance(r, 1, 10) {
		out = append(out, CollisionFamily(eco, r, 2)...)
	}
	// hash-extreme family: ordinary versions whose 32-bit hash is MinInt32 / 0 / MaxInt32 / 0xFFFFFFFF
	if chance(r, 1, 10) {
		out = append(out, ExtremeFamily(r, 3)...)
	}
	// length family: spellings whose LENGTH is a number literal of the sources (buffer sizes, length guards, fast-path
	// thresholds) and its neighbours
	if chance(r, 1, 8) {
		for tries := 0; tries < 6; tries++ {
			n, err := strconv.Atoi(EcoNum(eco, r))
			if tries >= 3 {
				n, err = strconv.Atoi(DictNum(r))
			}
			if err != nil || n < 12 || n > 1100 {
				continue
			}
			for _, l := range []int{n - 1, n, n + 1} {
				out = append(out, OfLength(base, l)...)
			}
			break
		}
	}
	// source-dictionary family: numbers and words that are literals of THIS ecosystem's package, in the number
	// slot of every marker, as a component, and as a qualifier word
	if chance(r, 1, 3) && (len(ecoNums[eco]) > 0 || len(dictNums) > 0) {
		for k := 0; k < 4; k++ {
			n := EcoNum(eco, r)
			if len(n) > 12 {
				continue
			}
			i := r.IntN(len(c))
			d := append([]string{}, c...)
			d[i] = n
			out = append(out, strings.Join(d, "."))
			for _, m := range append(append([]string{}, ms.Pre...), ms.Post...) {
				t := strings.TrimRight(m, "0123456789")
				if t != "" && chance(r, 1, 3) {
					out = append(out, base+t+n, base+t+decInc(n))
				}
			}
		}
		// separators: the first characters of this ecosystem's own marker spellings
		seps := []string{"-", "."}
		for _, m := range append(append([]string{}, ms.Pre...), ms.Post...) {
			if m != "" && !(m[0] >= 'a' && m[0] <= 'z' || m[0] >= 'A' && m[0] <= 'Z' || m[0] >= '0' && m[0] <= '9') {
				seps = append(seps, m[:1])
			} else {
				seps = append(seps, "")
			}
		}
		for k := 0; k < 4; k++ {
			w := EcoWord(eco, r)
			sep := seps[r.IntN(len(seps))]
			out = append(out, base+sep+w, base+sep+w+[]string{"1", "2", ".1", "-1"}[r.IntN(4)], base+sep+strings.ToUpper(w))
		}
	}
	// alignment family: the same members with the first number lengthened by k digits (k the same for all of
	// them), so that the point where neighbours differ lands on every offset modulo 8 / 16 / 32 (block-wise and
	// word-wise comparison loops, SIMD-style prefix skipping)
	if chance(r, 1, 6) {
		n0 := len(out)
		for n := 0; n < 2; n++ {
			k := 1 + r.IntN(17)
			for _, m := range out[:n0] {
				if len(m) < 60 {
					if a := alignShift(m, k); a != "" {
						out = append(out, a)
					}
				}
			}
		}
	}
	// prefix family: a long hash-like word attached to the base with one of the usual tail separators, next to a shorter
	// prefix of it and two different longer extensions (abbreviated vs full commit hashes, truncated build tags):
	// "is a prefix of" is not an equivalence, and prefix-based shortcuts break transitivity only with three relatives
	if chance(r, 1, 6) {
		w := []string{"1a2b3c4", "abcdef0", "deadbee", "0123456", "gabcdef", "fffffff"}[r.IntN(6)]
		for _, sep := range []string{"~", "+", "-", ".", "_", "+git", "_git", "-g", "~git"} {
			if !chance(r, 1, 2) {
				continue
			}
			tails := []string{"", "-r0", "-1"}
			tl := tails[r.IntN(len(tails))]
			out = append(out, base+sep+w+tl, base+sep+w+"d5e6f"+tl, base+sep+w+"ffe01"+tl, base+sep+w[:6]+tl, base+sep+w+"d"+tl, base+sep+w[:5]+tl)
		}
	}
	// number-parser quirk family: spellings that Go's strconv functions read as numbers although a version grammar
	// does not (a sign, a base prefix, an exponent, digit separators), in the last component and after every tail
	// separator, next to the plain numbers they would be confused with
	if chance(r, 1, 6) {
		n := pick(r, "1", "2", "10", "0", "5")
		quirks := []string{"+" + n, "-" + n, "0x" + n, n + "e1", n + "_0", "0b1", "0o" + n, "+0" + n, n + "e0", "0X" + n, "1_000", n + ".0e0"}
		d := append([]string{}, c...)
		for _, q := range quirks {
			if chance(r, 1, 2) {
				d[len(d)-1] = q
				out = append(out, strings.Join(d, "."))
			}
			if chance(r, 1, 2) {
				sep := pick(r, "-", "+", "~", "_", ".", "-r", "_p", ".post", "-rc")
				out = append(out, base+sep+q, base+sep+n, base+sep+decInc(n))
			}
		}
	}
	// infix family: two members (for composer also branch names) joined by a blank-delimited connective - the fixed ones
	// and short words that are literals of this ecosystem's sources ("dev-feature as 2.0.0", "1.0 - 2.0", "1 to 2").
	// Parsers that accept free text accept these; a grammar that starts to give the connective a meaning does so here
	if chance(r, 1, 6) {
		heads := append([]string{}, out[:min(len(out), 12)]...)
		if eco == "composer" {
			heads = append(heads, "dev-main", "dev-feature", "dev-master", "dev-fix", "dev-main", "dev-feature")
			out = append(out, "dev-main", "dev-feature", "dev-fix", "dev-2.x", "dev-10.x", "dev-15-fix-login", "dev-1.9.x", "dev-1.10.x", "dev-11", "dev-9.x")
		}
		words := []string{"as", "and", "or", "to", "@", "-", "as"}
		for k := 0; k < 3; k++ {
			if wd := EcoWord(eco, r); len(wd) <= 6 {
				words = append(words, strings.ToLower(wd))
			}
		}
		for k := 0; k < 10; k++ {
			out = append(out, heads[r.IntN(len(heads))]+" "+words[r.IntN(len(words))]+" "+out[r.IntN(min(len(out), 20))])
		}
	}
	// literals of this ecosystem's sources that the baseline dictionary does not have (a later change introduced them):
	// glued after / before / between members, with and without the usual separators
	if nl := newLits[eco]; len(nl) > 0 {
		for k := 0; k < 10; k++ {
			l := nl[r.IntN(len(nl))]
			m := out[r.IntN(min(len(out), 16))]
			switch r.IntN(5) {
			case 0:
				out = append(out, m+l)
			case 1:
				out = append(out, l+m)
			case 2:
				out = append(out, m+l+out[r.IntN(min(len(out), 16))])
			case 3:
				out = append(out, m+pick(r, "-", ".", "+", "_", "~", "")+l)
			default:
				out = append(out, m+l+Num(r, NumOpts{}))
			}
		}
	}
	// regex-derived family (regexgen.go): strings sampled from the ecosystem's own regular expressions and their relatives
	if chance(r, 1, 5) || (len(newRegexAST[eco]) > 0 && chance(r, 1, 2)) {
		out = append(out, RegexFamily(eco, r)...)
	}
	// identifier-kind family (SemVer-style ecosystems): the same base and the same leading identifiers, the deciding
	// identifier running through every KIND - small and huge numbers of different digit counts, alphanumerics that start
	// with a digit, letters, hyphens - so that every pair of kinds meets
	switch eco {
	case "semver", "npm", "cargo", "hex", "golang", "nuget", "conan", "composer", "github":
		if chance(r, 1, 5) {
			b3 := base
			if n := strings.Count(base, "."); n < 2 {
				b3 = base + strings.Repeat(".0", 2-n)
			}
			if eco == "golang" {
				b3 = "v" + strings.TrimPrefix(b3, "v")
			}
			lead := []string{"-", "-rc.", "-0.", "-alpha.1."}[r.IntN(4)]
			for _, id := range []string{"1", "9", "10", "9999999999999999999", "20240115123456789012", "18446744073709551616", "100000000000000000000",
				"5-g1a2b3c4", "1e1", "9z", "2x", "10a", "a", "rc", "z", "-", "0a", "99999999999999999999999",
				"9-g2414721", "10-g2414721", "5-g2414721-dirty", "14-g2414721"} {
				if chance(r, 2, 3) {
					out = append(out, b3+lead+id)
				}
			}
		}
	}
	// separator-variant family: for a few members, every separator of the tail replaced by each of the others
	// (alpha.beta / alpha-beta / alpha_beta), and each variant continued by a numeric identifier: orders that treat two
	// separators alike in one code path and differently in another are inconsistent exactly between these
	if chance(r, 1, 5) {
		n0 := len(out)
		for k := 0; k < 4 && n0 > 0; k++ {
			m := out[r.IntN(n0)]
			j := firstNonCore(m)
			if j <= 0 || j >= len(m)-2 || len(m) > 40 {
				continue
			}
			tail := m[j:]
			for x := 1; x < len(tail); x++ {
				if strings.ContainsRune(".-_+~", rune(tail[x])) {
					for _, sp := range []string{".", "-", "_"} {
						if string(tail[x]) != sp {
							v := m[:j] + tail[:x] + sp + tail[x+1:]
							out = append(out, v, v+".1", v+"-1")
						}
					}
				}
			}
			out = append(out, m+".1", m+"-1")
		}
	}
	// golang: the placeholder pseudo-version the go command writes for a module without version information (zero
	// time, all-zero revision) and its neighbours, with and without build metadata
	if eco == "golang" && chance(r, 1, 4) {
		out = append(out, "v0.0.0-00010101000000-000000000000", "v0.0.0-00010101000000-000000000000+build.1", "v0.0.0-00010101000001-000000000000",
			"v0.0.0-00010101000000-000000000001", "v0.0.0-0", "v0.0.0", "v0.0.1-0.00010101000000-000000000000", "v1.0.0-00010101000000-000000000000")
	}
	// gem: hyphen spellings of numeric pre-releases next to their dotted equals (2.0-1 == 2.0.pre.1)
	if eco == "gem" && chance(r, 1, 4) {
		short := base
		if i := strings.LastIndex(base, "."); i > 0 {
			short = base[:i]
		}
		for _, b := range []string{base, short} {
			out = append(out, b+"-1", b+".pre.1", b+".pre1", b+"-2", b+".0.beta1", b+".beta1", b+".0-1", b+".0")
		}
	}
	// identifier-count family: the tail made of k dot-separated identifiers for k around 8, 16, 32 (and around every
	// small number literal that the baseline dictionary does not have), in sibling pairs that differ in the last
	// identifier: fixed-size scratch arrays and inline buffers hold "at most n identifiers"
	if chance(r, 1, 8) || (len(newNums[eco]) > 0 && chance(r, 1, 3)) {
		counts := []int{7, 8, 9, 15, 16, 17, 32, 33}
		for _, ns := range newNums[eco] {
			if n, err := strconv.Atoi(ns); err == nil && n >= 3 && n <= 64 {
				counts = append(counts, n-1, n, n+1, 2*n, 2*n+1)
			}
		}
		sep0 := "-"
		if ms := MarkerTable[eco]; len(ms.Pre) > 0 && len(ms.Pre[0]) > 0 {
			if c0 := ms.Pre[0][0]; !(c0 >= 'a' && c0 <= 'z') {
				sep0 = ms.Pre[0][:1]
			}
		}
		for n := 0; n < 4; n++ {
			k := counts[r.IntN(len(counts))]
			ids := make([]string, k)
			for x := range ids {
				ids[x] = []string{"a", "1", "rc", "x", "2", "b"}[(x+n)%6]
			}
			stem := base + sep0 + strings.Join(ids[:k-1], ".")
			out = append(out, stem+".1", stem+".2", stem+".a", stem)
		}
	}
	// non-ASCII letter-case family: the same unknown word in upper, lower and title case with letters outside A-Z
	// (Latin-1, Cyrillic): "case-insensitive" code that folds A-Z only treats them as different words
	if chance(r, 1, 8) {
		sep := pick(r, "-", ".")
		for _, wd := range [][]string{{"ÄNDERUNG", "änderung", "Änderung"}, {"РЕЛИЗ", "релиз", "Релиз"}, {"ÉTÉ", "été", "Été"}, {"ÜBER", "über", "Über"}}[r.IntN(4)] {
			out = append(out, base+sep+wd, base+sep+wd+"1", base+sep+wd+sep+"2")
		}
		out = append(out, base+sep+"àjour", base+sep+"zeta", base+sep+"Zeta")
	}
	// maven: the unique snapshots of this base as a repository lists them, next to the literal -SNAPSHOT
	if eco == "maven" && chance(r, 1, 5) {
		out = append(out, base+"-SNAPSHOT", base+"-snapshot")
		for k := 0; k < 4; k++ {
			out = append(out, base+"-"+pick(r, "20240115", "20240301", "20231231")+"."+pick(r, "123456", "080000", "235959")+"-"+pick(r, "1", "2", "7", "10"))
		}
	}
	// ecosystem-specific extras around the same base
	for k := 0; k < 6; k++ {
		x := One(eco, r)
		// graft the random tail onto this base where the grammar starts with a dotted core
		if j := firstNonCore(x); j > 0 && j < len(x) {
			out = append(out, base+x[j:])
		} else {
			out = append(out, x)
		}
	}
	// respellings of a few members
	n := len(out)
	for k := 0; k < 6 && k < n; k++ {
		out = append(out, Respell(eco, out[r.IntN(n)], r)...)
	}
	return out
}

// alignShift appends k zeros to the first digit run of s (after an optional epoch-free "v" prefix); "" if s has none.
func alignShift(s string, k int) string {
	i := 0
	for i < len(s) && (s[i] < '0' || s[i] > '9') {
		i++
		if i > 1 {
			return ""
		}
	}
	j := i
	for j < len(s) && s[j] >= '0' && s[j] <= '9' {
		j++
	}
	if j == i || j-i+k > 18 || s[i] == '0' {
		return ""
	}
	return s[:j] + strings.Repeat("0", k) + s[j:]
}

func firstNonCore(s string) int {
	i := 0
	for i < len(s) && (s[i] >= '0' && s[i] <= '9' || s[i] == '.') {
		i++
	}
	for i > 0 && s[i-1] == '.' {
		i--
	}
	return i
}

// MavenConventional reports the conventional shapes C12 claims: N(.N){0,3} optionally followed by
// one group joined by '.' or '-': a qualifier alone, a qualifier with a number glued or joined by
// '.'/'-', or a bare build number. Bare single-letter aliases (a, b, m not directly followed by a
// digit) are excluded.
func MavenConventional(s string) bool {
	m := mavenConv.FindStringSubmatch(s)
	if m == nil {
		return false
	}
	q := strings.ToLower(m[1])
	if len(q) == 1 && (q == "a" || q == "b" || q == "m") {
		// alias only when glued to a digit
		return m[2] != "" && m[2][0] >= '0' && m[2][0] <= '9'
	}
	return true
}

var mavenConv = regexp.MustCompile(`^[0-9]+(?:\.[0-9]+){0,3}(?:[.-](?:([A-Za-z\x{00C0}-\x{00D6}\x{00D8}-\x{00F6}\x{00F8}-\x{00FF}\x{0410}-\x{044F}]+)((?:[.-]?[0-9]+)?)|[0-9]+))?$`)

// Pick returns one of xs.
func Pick(r *rand.Rand, xs ...string) string { return xs[r.IntN(len(xs))] }
