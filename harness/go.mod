module verif/harness

go 1.24.4

require github.com/alowayed/go-univers v0.0.0

replace github.com/alowayed/go-univers => /repo
