package ref

import "strings"

// libalpm lib/libalpm/version.c: rpmvercmp() and alpm_pkg_vercmp() (epoch, pkgver, pkgrel; a missing
// pkgrel compares equal to any pkgrel).

func alpmRpmvercmp(a, b string) int {
	if a == b {
		return 0
	}
	one, two := 0, 0
	for one < len(a) && two < len(b) {
		p1, p2 := one, two
		for one < len(a) && !isD(a[one]) && !isAl(a[one]) {
			one++
		}
		for two < len(b) && !isD(b[two]) && !isAl(b[two]) {
			two++
		}
		if one >= len(a) || two >= len(b) {
			break
		}
		if one-p1 != two-p2 {
			if one-p1 < two-p2 {
				return -1
			}
			return 1
		}
		s1, s2 := one, two
		isnum := isD(a[one])
		if isnum {
			for one < len(a) && isD(a[one]) {
				one++
			}
			for two < len(b) && isD(b[two]) {
				two++
			}
		} else {
			for one < len(a) && isAl(a[one]) {
				one++
			}
			for two < len(b) && isAl(b[two]) {
				two++
			}
		}
		x, y := a[s1:one], b[s2:two]
		if y == "" {
			if isnum {
				return 1
			}
			return -1
		}
		if isnum {
			if c := NumCmp(x, y); c != 0 {
				return c
			}
		} else if c := strings.Compare(x, y); c != 0 {
			return sgn(c)
		}
	}
	if one >= len(a) && two >= len(b) {
		return 0
	}
	if (one >= len(a) && !isAl(b[two])) || (one < len(a) && isAl(a[one])) {
		return -1
	}
	return 1
}

// AlpmSplit splits [epoch:]pkgver[-pkgrel] the way go-univers documents (pkgrel = digits after the last hyphen).
func AlpmSplit(s string) (epoch, ver, rel string, hasRel bool) {
	epoch = "0"
	if k := strings.IndexByte(s, ':'); k >= 0 {
		epoch, s = s[:k], s[k+1:]
	}
	if k := strings.LastIndexByte(s, '-'); k >= 0 && AllDigits(s[k+1:]) {
		return epoch, s[:k], s[k+1:], true
	}
	return epoch, s, "", false
}

// AlpmCmp is alpm_pkg_vercmp on go-univers' split.
func AlpmCmp(a, b string) int {
	ea, va, ra, ha := AlpmSplit(a)
	eb, vb, rb, hb := AlpmSplit(b)
	if c := NumCmp(ea, eb); c != 0 {
		return c
	}
	if c := alpmRpmvercmp(va, vb); c != 0 {
		return c
	}
	if ha && hb {
		return NumCmp(ra, rb)
	}
	return 0
}
