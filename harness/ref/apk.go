package ref

import (
	"regexp"
	"strings"
)

// Alpine / apk-tools order. Two models:
//   ApkSentence  - a structural comparator implementing the sentence of property C14;
//   apkTokens    - a transcription of apk-tools 2.12 src/version.c (reproduces all vectors of
//                  the repository's alpine/testdata/compare.txt), used for calibration and to mark
//                  as Unclaimed the places where the token machine does something the sentence
//                  does not say.

var apkRe = regexp.MustCompile(`^([0-9]+(?:\.[0-9]+)*)([a-z]?)((?:_(?:alpha|beta|pre|rc|cvs|svn|git|hg|p)[0-9]*)*)(?:-r([0-9]+))?$`)
var apkSufRe = regexp.MustCompile(`_(alpha|beta|pre|rc|cvs|svn|git|hg|p)([0-9]*)`)

var apkRank = map[string]int{"alpha": -4, "beta": -3, "pre": -2, "rc": -1, "cvs": 1, "svn": 2, "git": 3, "hg": 4, "p": 5}

type apkV struct {
	nums   []string
	letter string
	suf    [][2]string
	rev    string
	hasRev bool
}

func apkParse(s string) *apkV {
	m := apkRe.FindStringSubmatch(s)
	if m == nil {
		return nil
	}
	v := &apkV{nums: strings.Split(m[1], "."), letter: m[2]}
	for _, x := range apkSufRe.FindAllStringSubmatch(m[3], -1) {
		v.suf = append(v.suf, [2]string{x[1], x[2]})
	}
	if strings.Contains(s, "-r") {
		v.hasRev, v.rev = true, m[4]
	}
	return v
}

// ApkInDomain: both well-formed, same number of numeric components, no leading zeros anywhere.
func ApkInDomain(a, b string) bool {
	x, y := apkParse(a), apkParse(b)
	if x == nil || y == nil || len(x.nums) != len(y.nums) {
		return false
	}
	for _, v := range []*apkV{x, y} {
		for _, n := range v.nums {
			if len(n) > 1 && n[0] == '0' {
				return false
			}
		}
		for _, s := range v.suf {
			if len(s[1]) > 1 && s[1][0] == '0' {
				return false
			}
		}
		if len(v.rev) > 1 && v.rev[0] == '0' {
			return false
		}
	}
	return true
}

// ApkSentence compares per the property's sentence.
func ApkSentence(a, b string) (int, string) {
	x, y := apkParse(a), apkParse(b)
	for i := range x.nums {
		if c := NumCmp(x.nums[i], y.nums[i]); c != 0 {
			return c, "apk/numeric"
		}
	}
	if x.letter != y.letter {
		return sgn(strings.Compare(x.letter, y.letter)), "apk/letter"
	}
	for i := 0; i < len(x.suf) && i < len(y.suf); i++ {
		if rx, ry := apkRank[x.suf[i][0]], apkRank[y.suf[i][0]]; rx != ry {
			return sgn(rx - ry), "apk/suffix-rank"
		}
		nx, ny := x.suf[i][1], y.suf[i][1]
		if nx == "" {
			nx = "0"
		}
		if ny == "" {
			ny = "0"
		}
		if c := NumCmp(nx, ny); c != 0 {
			return c, "apk/suffix-number"
		}
	}
	if len(x.suf) != len(y.suf) {
		long, s := x, 1
		if len(y.suf) > len(x.suf) {
			long, s = y, -1
		}
		next := long.suf[min(len(x.suf), len(y.suf))][0]
		if apkRank[next] < 0 {
			return -s, "apk/extra-pre-suffix"
		}
		return s, "apk/extra-post-suffix"
	}
	rx, ry := x.rev, y.rev
	if rx == "" {
		rx = "0"
	}
	if ry == "" {
		ry = "0"
	}
	if c := NumCmp(rx, ry); c != 0 {
		return c, "apk/revision"
	}
	return 0, "apk/equal"
}

// ApkCmp returns the sentence's verdict and whether it is claimed (the apk-tools 2.12 token
// machine agrees; disagreements are the unclaimed zones z1-z3 of DESIGN.md section 5/C14).
func ApkCmp(a, b string) (c int, rule string, claimed bool) {
	c, rule = ApkSentence(a, b)
	t := ApkTokens(a, b)
	return c, rule, t == c
}

const (
	tInvalid = iota - 1
	tDigitOrZero
	tDigit
	tLetter
	tSuffix
	tSuffixNo
	tRevisionNo
	tEnd
)

type blob struct{ s string }

func islower(c byte) bool { return c >= 'a' && c <= 'z' }

func nextToken(typ *int, b *blob) {
	n := tInvalid
	if len(b.s) == 0 {
		n = tEnd
	} else if (*typ == tDigit || *typ == tDigitOrZero) && islower(b.s[0]) {
		n = tLetter
	} else if *typ == tLetter && isD(b.s[0]) {
		n = tDigit
	} else if *typ == tSuffix && isD(b.s[0]) {
		n = tSuffixNo
	} else {
		switch b.s[0] {
		case '.':
			n = tDigitOrZero
		case '_':
			n = tSuffix
		case '-':
			if len(b.s) > 1 && b.s[1] == 'r' {
				n = tRevisionNo
				b.s = b.s[1:]
			} else {
				n = tInvalid
			}
		}
		b.s = b.s[1:]
	}
	if n < *typ {
		if !((n == tDigitOrZero && *typ == tDigit) || (n == tSuffix && *typ == tSuffixNo) || (n == tDigit && *typ == tLetter)) {
			n = tInvalid
		}
	}
	*typ = n
}

var preS = []string{"alpha", "beta", "pre", "rc"}
var postS = []string{"cvs", "svn", "git", "hg", "p"}

func getToken(typ *int, b *blob) int64 {
	var v int64
	i := 0
	nt := tInvalid
	if len(b.s) == 0 {
		*typ = tEnd
		return 0
	}
	switch *typ {
	case tDigitOrZero:
		if b.s[0] == '0' {
			for i < len(b.s) && b.s[i] == '0' {
				i++
			}
			nt = tDigit
			v = int64(-i)
			break
		}
		fallthrough
	case tDigit, tSuffixNo, tRevisionNo:
		for i < len(b.s) && isD(b.s[i]) {
			v = v*10 + int64(b.s[i]-'0')
			i++
		}
	case tLetter:
		v = int64(b.s[0])
		i = 1
	case tSuffix:
		found := false
		for k, p := range preS {
			if strings.HasPrefix(b.s, p) {
				v = int64(k - len(preS))
				i = len(p)
				found = true
				break
			}
		}
		if !found {
			for k, p := range postS {
				if strings.HasPrefix(b.s, p) {
					v = int64(k)
					i = len(p)
					found = true
					break
				}
			}
		}
		if !found {
			*typ = tInvalid
			return -1
		}
	default:
		*typ = tInvalid
		return -1
	}
	b.s = b.s[i:]
	if len(b.s) == 0 {
		*typ = tEnd
	} else if nt != tInvalid {
		*typ = nt
	} else {
		nextToken(typ, b)
	}
	return v
}

// ApkTokens is apk_version_compare_blob of apk-tools 2.12.
func ApkTokens(as, bs string) int {
	a, b := &blob{as}, &blob{bs}
	at, bt := tDigit, tDigit
	var av, bv int64
	for at == bt && at != tEnd && at != tInvalid && av == bv {
		av = getToken(&at, a)
		bv = getToken(&bt, b)
	}
	if av < bv {
		return -1
	}
	if av > bv {
		return 1
	}
	if at == bt {
		return 0
	}
	tt := at
	if at == tSuffix && getToken(&tt, &blob{a.s}) < 0 {
		return -1
	}
	tt = bt
	if bt == tSuffix && getToken(&tt, &blob{b.s}) < 0 {
		return 1
	}
	if at > bt {
		return -1
	}
	if bt > at {
		return 1
	}
	return 0
}
