package ref

import "strings"

// dpkg lib/dpkg/version.c: verrevcmp with order().

func dOrder(c byte) int {
	switch {
	case isD(c):
		return 0
	case isAl(c):
		return int(c)
	case c == '~':
		return -1
	case c != 0:
		return int(c) + 256
	}
	return 0
}

func at(s string, i int) byte {
	if i < len(s) {
		return s[i]
	}
	return 0
}

func verrevcmp(a, b string) (int, string) {
	i, j := 0, 0
	for i < len(a) || j < len(b) {
		first := 0
		for (at(a, i) != 0 && !isD(at(a, i))) || (at(b, j) != 0 && !isD(at(b, j))) {
			ca, cb := at(a, i), at(b, j)
			ac, bc := dOrder(ca), dOrder(cb)
			if ac != bc {
				rule := "dpkg/nondigit-order"
				switch {
				case ca == '~' || cb == '~':
					rule = "dpkg/tilde"
				case ca == 0 || cb == 0 || isD(ca) || isD(cb):
					rule = "dpkg/nondigit-vs-end"
				case isAl(ca) != isAl(cb):
					rule = "dpkg/letter-before-punct"
				}
				return sgn(ac - bc), rule
			}
			i++
			j++
		}
		za, zb := i, j
		for at(a, i) == '0' {
			i++
		}
		for at(b, j) == '0' {
			j++
		}
		sa, sb := i, j
		for isD(at(a, i)) && isD(at(b, j)) {
			if first == 0 {
				first = int(at(a, i)) - int(at(b, j))
			}
			i++
			j++
		}
		rule := "dpkg/digits"
		ea, eb := i, j
		for isD(at(a, ea)) {
			ea++
		}
		for isD(at(b, eb)) {
			eb++
		}
		if ea-za == 0 || eb-zb == 0 {
			rule = "dpkg/empty-digit-run"
		} else if ea-sa > 19 || eb-sb > 19 {
			rule = "dpkg/big-digits"
		} else if sa != za || sb != zb {
			rule = "dpkg/leading-zeros"
		}
		if isD(at(a, i)) {
			return 1, rule
		}
		if isD(at(b, j)) {
			return -1, rule
		}
		if first != 0 {
			return sgn(first), rule
		}
	}
	return 0, "dpkg/equal"
}

// DpkgSplit splits [epoch:]upstream[-revision].
func DpkgSplit(s string) (ep, up, rev string, hasEp, hasRev bool) {
	ep = "0"
	if k := strings.IndexByte(s, ':'); k >= 0 {
		ep, s, hasEp = s[:k], s[k+1:], true
	}
	if k := strings.LastIndexByte(s, '-'); k >= 0 {
		s, rev, hasRev = s[:k], s[k+1:], true
	}
	return ep, s, rev, hasEp, hasRev
}

// DpkgValid applies dpkg's own validity rules (parseversion): non-empty numeric epoch when a
// colon is present, upstream non-empty and starting with a digit, revision non-empty when a hyphen
// is present, character sets.
func DpkgValid(s string) bool {
	if s == "" || strings.TrimSpace(s) != s {
		return false
	}
	ep, up, rev, hasEp, hasRev := DpkgSplit(s)
	if hasEp && !AllDigits(ep) {
		return false
	}
	if hasEp && len(strings.TrimLeft(ep, "0")) > 9 {
		return false // epoch must fit an int
	}
	if up == "" || !isD(up[0]) {
		return false
	}
	if hasRev && rev == "" {
		return false
	}
	ok := func(p string, hy bool) bool {
		for i := 0; i < len(p); i++ {
			c := p[i]
			if isD(c) || isAl(c) || c == '.' || c == '+' || c == '~' || (hy && c == '-') {
				continue
			}
			return false
		}
		return true
	}
	return ok(up, true) && ok(rev, false)
}

// DpkgCmp is dpkg --compare-versions.
func DpkgCmp(a, b string) (int, string) {
	ea, ua, ra, _, _ := DpkgSplit(a)
	eb, ub, rb, _, _ := DpkgSplit(b)
	if c := NumCmp(ea, eb); c != 0 {
		return c, "dpkg/epoch"
	}
	if c, r := verrevcmp(ua, ub); c != 0 {
		return c, r
	}
	c, r := verrevcmp(ra, rb)
	if c != 0 {
		return c, "revision:" + r
	}
	return 0, "dpkg/equal"
}
