package ref

import (
	"regexp"
	"strings"
)

// Gem::Version: VERSION_PATTERN, segments ('-' => '.pre.', scan /[0-9]+|[a-z]+/i),
// canonical_segments (trailing zeros dropped from the numeric and from the string part), <=>.

var gemPattern = regexp.MustCompile(`^\s*([0-9]+(\.[0-9a-zA-Z]+)*(-[0-9A-Za-z-]+(\.[0-9A-Za-z-]+)*)?)?\s*$`)
var gemScan = regexp.MustCompile(`[0-9]+|[a-zA-Z]+`)

// GemValid is RubyGems' own ANCHORED_VERSION_PATTERN.
func GemValid(s string) bool { return gemPattern.MatchString(s) }

type gseg struct {
	isNum bool
	s     string
}

func gemSegments(v string) []gseg {
	v = strings.TrimSpace(v)
	if v == "" {
		v = "0"
	}
	v = strings.ReplaceAll(v, "-", ".pre.")
	var segs []gseg
	for _, t := range gemScan.FindAllString(v, -1) {
		if isD(t[0]) {
			t = strings.TrimLeft(t, "0")
			if t == "" {
				t = "0"
			}
			segs = append(segs, gseg{isNum: true, s: t})
		} else {
			segs = append(segs, gseg{s: t})
		}
	}
	k := len(segs)
	for x, s := range segs {
		if !s.isNum {
			k = x
			break
		}
	}
	trim := func(p []gseg) []gseg {
		for len(p) > 0 && p[len(p)-1].isNum && p[len(p)-1].s == "0" {
			p = p[:len(p)-1]
		}
		return p
	}
	num := trim(append([]gseg{}, segs[:k]...))
	str := trim(append([]gseg{}, segs[k:]...))
	return append(num, str...)
}

// GemCmp is Gem::Version#<=>.
func GemCmp(a, b string) (int, string) {
	l, r := gemSegments(a), gemSegments(b)
	for i := 0; i < len(l) || i < len(r); i++ {
		x, y := gseg{isNum: true, s: "0"}, gseg{isNum: true, s: "0"}
		missing := false
		if i < len(l) {
			x = l[i]
		} else {
			missing = true
		}
		if i < len(r) {
			y = r[i]
		} else {
			missing = true
		}
		switch {
		case x.isNum && y.isNum:
			if c := NumCmp(x.s, y.s); c != 0 {
				if missing {
					return c, "gem/number-vs-missing"
				}
				return c, "gem/numbers"
			}
		case !x.isNum && y.isNum:
			if missing {
				return -1, "gem/string-vs-missing"
			}
			return -1, "gem/string-below-number"
		case x.isNum && !y.isNum:
			if missing {
				return 1, "gem/string-vs-missing"
			}
			return 1, "gem/string-below-number"
		default:
			if c := strings.Compare(x.s, y.s); c != 0 {
				return sgn(c), "gem/strings"
			}
		}
	}
	return 0, "gem/equal"
}

// GemVectors are comparison vectors from rubygems' test_gem_version.rb (model self-test).
var GemVectors = [][3]string{
	{"1.0", "1.0.0", "0"}, {"1.0", "1.0.a", "1"}, {"1.8.2", "0.0.0", "1"}, {"1.8.2", "1.8.2.a", "1"}, {"1.8.2.b", "1.8.2.a", "1"},
	{"1.8.2.a", "1.8.2", "-1"}, {"1.8.2.a10", "1.8.2.a9", "1"}, {"", "0", "0"}, {"0.beta.1", "0.0.beta.1", "0"}, {"0.0.beta", "0.0.beta.1", "-1"},
	{"0.0.beta", "0.beta.1", "-1"}, {"5.a", "5.0.0.rc2", "-1"}, {"5.x", "5.0.0.rc2", "1"}, {"1.9.3", "1.9.3", "0"}, {"1.9.3", "1.9.2.99", "1"},
	{"1.9.3", "1.9.3.1", "-1"}, {"1.0.0-alpha", "1.0.0.pre.alpha", "0"}, {"1.0.0-1", "1.0.0.pre.1", "0"}, {"1.0.0.rc1", "1.0.0", "-1"},
	{"2.0.0.rc1", "2.0.0", "-1"}, {"1.0.0.beta.2", "1.0.0.beta.10", "-1"}, {"1.2.3.a4", "1.2.3.a10", "-1"}, {"1.0.a", "1.0.b", "-1"},
}
