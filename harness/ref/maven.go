package ref

import "strings"

// org.apache.maven.artifact.versioning.ComparableVersion, Maven 3.8.x behaviour (calibrated
// against maven-artifact 3.8.7: a string token always opens a sub-list when the current list is
// non-empty, i.e. ".X" is treated as "-X" for string qualifiers).

type mItem struct {
	kind int // 0 int, 1 string, 2 list
	num  string
	str  string
	list []*mItem
}

var mQual = []string{"alpha", "beta", "milestone", "rc", "snapshot", "", "sp"}

func mCmpQual(q string) string {
	for i, x := range mQual {
		if x == q {
			return string(rune('0' + i))
		}
	}
	return "7-" + q
}

func mNewString(v string, followedByDigit bool) *mItem {
	if followedByDigit && len(v) == 1 {
		switch v {
		case "a":
			v = "alpha"
		case "b":
			v = "beta"
		case "m":
			v = "milestone"
		}
	}
	switch v {
	case "ga", "final", "release":
		v = ""
	case "cr":
		v = "rc"
	}
	return &mItem{kind: 1, str: v}
}

func mParseItem(isDigit bool, buf string) *mItem {
	if isDigit {
		b := strings.TrimLeft(buf, "0")
		if b == "" {
			b = "0"
		}
		return &mItem{kind: 0, num: b}
	}
	return mNewString(buf, false)
}

func (it *mItem) isNull() bool {
	switch it.kind {
	case 0:
		return it.num == "0"
	case 1:
		return mCmpQual(it.str) == "5"
	default:
		return len(it.list) == 0
	}
}

func (it *mItem) normalize() {
	for i := len(it.list) - 1; i >= 0; i-- {
		last := it.list[i]
		if last.isNull() {
			it.list = append(it.list[:i], it.list[i+1:]...)
		} else if last.kind != 2 {
			break
		}
	}
}

func mParse(version string) *mItem {
	version = strings.ToLower(version)
	root := &mItem{kind: 2}
	list := root
	stack := []*mItem{root}
	push := func() {
		nl := &mItem{kind: 2}
		list.list = append(list.list, nl)
		list = nl
		stack = append(stack, nl)
	}
	isDigit := false
	start := 0
	for i := 0; i < len(version); i++ {
		c := version[i]
		switch {
		case c == '.':
			if i == start {
				list.list = append(list.list, &mItem{kind: 0, num: "0"})
			} else {
				list.list = append(list.list, mParseItem(isDigit, version[start:i]))
			}
			start = i + 1
		case c == '-':
			if i == start {
				list.list = append(list.list, &mItem{kind: 0, num: "0"})
			} else {
				list.list = append(list.list, mParseItem(isDigit, version[start:i]))
			}
			start = i + 1
			push()
		case isD(c):
			if !isDigit && i > start {
				if len(list.list) > 0 {
					push()
				}
				list.list = append(list.list, mNewString(version[start:i], true))
				start = i
				push()
			}
			isDigit = true
		default:
			if isDigit && i > start {
				list.list = append(list.list, mParseItem(true, version[start:i]))
				start = i
				push()
			}
			isDigit = false
		}
	}
	if len(version) > start {
		if !isDigit && len(list.list) > 0 {
			push()
		}
		list.list = append(list.list, mParseItem(isDigit, version[start:]))
	}
	for i := len(stack) - 1; i >= 0; i-- {
		stack[i].normalize()
	}
	return root
}

func mCompare(a, b *mItem) (int, string) {
	switch a.kind {
	case 0:
		if b == nil {
			if a.num == "0" {
				return 0, ""
			}
			return 1, "maven/number-vs-null"
		}
		switch b.kind {
		case 0:
			return NumCmp(a.num, b.num), "maven/numbers"
		case 1:
			return 1, "maven/number-above-string"
		default:
			return 1, "maven/number-above-list"
		}
	case 1:
		if b == nil {
			return sgn(strings.Compare(mCmpQual(a.str), "5")), "maven/qualifier-vs-null"
		}
		switch b.kind {
		case 0:
			return -1, "maven/number-above-string"
		case 1:
			r := "maven/known-qualifier-order"
			if strings.HasPrefix(mCmpQual(a.str), "7-") || strings.HasPrefix(mCmpQual(b.str), "7-") {
				r = "maven/unknown-qualifier"
			}
			return sgn(strings.Compare(mCmpQual(a.str), mCmpQual(b.str))), r
		default:
			return -1, "maven/string-below-list"
		}
	default:
		if b == nil {
			for _, x := range a.list {
				if r, rule := mCompare(x, nil); r != 0 {
					return r, rule
				}
			}
			return 0, ""
		}
		switch b.kind {
		case 0:
			return -1, "maven/number-above-list"
		case 1:
			return 1, "maven/string-below-list"
		default:
			for i := 0; i < len(a.list) || i < len(b.list); i++ {
				var l, r *mItem
				if i < len(a.list) {
					l = a.list[i]
				}
				if i < len(b.list) {
					r = b.list[i]
				}
				var res int
				var rule string
				if l == nil {
					if r != nil {
						res, rule = mCompare(r, nil)
						res = -res
					}
				} else {
					res, rule = mCompare(l, r)
				}
				if res != 0 {
					return res, rule
				}
			}
			return 0, ""
		}
	}
}

// MavenCmp is new ComparableVersion(a).compareTo(new ComparableVersion(b)) normalised to a sign.
func MavenCmp(a, b string) (int, string) {
	c, r := mCompare(mParse(a), mParse(b))
	if c == 0 {
		r = "maven/equal"
	}
	return c, r
}
