package ref

import (
	"regexp"
	"strings"
)

// PEP 440 order as implemented by packaging.version._cmpkey, on the grammar the property names:
// [N!]N(.N)*[{a|b|rc|alpha|beta|c}N][.postN|.revN|.rN][.devN][+local]

var pepRe = regexp.MustCompile(`^(?:([0-9]+)!)?([0-9]+(?:\.[0-9]+)*)(?:\.?(a|b|rc|alpha|beta|c)([0-9]+))?(?:\.?(post|rev|r)([0-9]+))?(?:\.?(dev)([0-9]+))?(?:\+([a-zA-Z0-9]+(?:[-_.][a-zA-Z0-9]+)*))?$`)
var pepLocalSep = regexp.MustCompile(`[-_.]`)

// Pep is a parsed PEP 440 version.
type Pep struct {
	Epoch   string
	Release []string
	Pre     string // a|b|rc or ""
	PreN    string
	HasPost bool
	PostN   string
	HasDev  bool
	DevN    string
	Local   []string
	HasLoc  bool
}

// PepParse parses s, nil when outside the grammar.
func PepParse(s string) *Pep {
	m := pepRe.FindStringSubmatch(s)
	if m == nil {
		return nil
	}
	v := &Pep{Epoch: m[1], Release: strings.Split(m[2], ".")}
	if v.Epoch == "" {
		v.Epoch = "0"
	}
	switch m[3] {
	case "a", "alpha":
		v.Pre = "a"
	case "b", "beta":
		v.Pre = "b"
	case "rc", "c":
		v.Pre = "rc"
	}
	v.PreN = m[4]
	if m[5] != "" {
		v.HasPost, v.PostN = true, m[6]
	}
	if m[7] != "" {
		v.HasDev, v.DevN = true, m[8]
	}
	if m[9] != "" {
		v.HasLoc = true
		v.Local = pepLocalSep.Split(strings.ToLower(m[9]), -1)
	}
	for len(v.Release) > 1 && NumCmp(v.Release[len(v.Release)-1], "0") == 0 {
		v.Release = v.Release[:len(v.Release)-1]
	}
	return v
}

// IsPrerelease: packaging's is_prerelease (dev or pre segment present).
func (v *Pep) IsPrerelease() bool { return v.Pre != "" || v.HasDev }

func (v *Pep) preKey() (int, string) {
	if v.Pre == "" && !v.HasPost && v.HasDev {
		return 0, "0" // -inf: a bare dev release sorts before any pre-release
	}
	if v.Pre == "" {
		return 4, "0" // +inf
	}
	return map[string]int{"a": 1, "b": 2, "rc": 3}[v.Pre], v.PreN
}

// PepCmp compares two PEP 440 versions; ok=false when either is outside the grammar.
func PepCmp(sa, sb string) (c int, rule string, ok bool) {
	a, b := PepParse(sa), PepParse(sb)
	if a == nil || b == nil {
		return 0, "", false
	}
	if c := NumCmp(a.Epoch, b.Epoch); c != 0 {
		return c, "pep440/epoch", true
	}
	for i := 0; i < len(a.Release) || i < len(b.Release); i++ {
		x, y := "0", "0"
		if i < len(a.Release) {
			x = a.Release[i]
		}
		if i < len(b.Release) {
			y = b.Release[i]
		}
		if c := NumCmp(x, y); c != 0 {
			return c, "pep440/release", true
		}
	}
	ar, an := a.preKey()
	br, bn := b.preKey()
	if ar != br {
		rule := "pep440/pre-phase"
		if ar == 0 || br == 0 {
			rule = "pep440/dev-only-below-pre"
		} else if ar == 4 || br == 4 {
			rule = "pep440/pre-below-final"
		}
		return sgn(ar - br), rule, true
	}
	if c := NumCmp(an, bn); c != 0 {
		return c, "pep440/pre-number", true
	}
	if a.HasPost != b.HasPost {
		if a.HasPost {
			return 1, "pep440/post-above-none", true
		}
		return -1, "pep440/post-above-none", true
	}
	if a.HasPost {
		if c := NumCmp(a.PostN, b.PostN); c != 0 {
			return c, "pep440/post-number", true
		}
	}
	if a.HasDev != b.HasDev {
		if a.HasDev {
			return -1, "pep440/dev-below-none", true
		}
		return 1, "pep440/dev-below-none", true
	}
	if a.HasDev {
		if c := NumCmp(a.DevN, b.DevN); c != 0 {
			return c, "pep440/dev-number", true
		}
	}
	if a.HasLoc != b.HasLoc {
		if a.HasLoc {
			return 1, "pep440/local-above-public", true
		}
		return -1, "pep440/local-above-public", true
	}
	for i := 0; i < len(a.Local) || i < len(b.Local); i++ {
		if i >= len(a.Local) {
			return -1, "pep440/local-longer-wins", true
		}
		if i >= len(b.Local) {
			return 1, "pep440/local-longer-wins", true
		}
		x, y := a.Local[i], b.Local[i]
		xd, yd := AllDigits(x), AllDigits(y)
		switch {
		case xd && yd:
			if c := NumCmp(x, y); c != 0 {
				return c, "pep440/local-numeric", true
			}
		case xd:
			return 1, "pep440/local-numeric-above-alpha", true
		case yd:
			return -1, "pep440/local-numeric-above-alpha", true
		default:
			if c := strings.Compare(x, y); c != 0 {
				return sgn(c), "pep440/local-alpha", true
			}
		}
	}
	return 0, "pep440/equal", true
}
