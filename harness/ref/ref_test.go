package ref

import (
	"bufio"
	"os"
	"strconv"
	"strings"
	"testing"
)

func TestRpmVectors(t *testing.T) {
	for _, v := range RpmVectors {
		w, _ := strconv.Atoi(v[2])
		if c, r := rpmvercmp(v[0], v[1]); c != w {
			t.Errorf("rpmvercmp(%q,%q)=%d (%s) want %d", v[0], v[1], c, r, w)
		}
	}
}

func TestGemVectors(t *testing.T) {
	for _, v := range GemVectors {
		w, _ := strconv.Atoi(v[2])
		if c, r := GemCmp(v[0], v[1]); c != w {
			t.Errorf("GemCmp(%q,%q)=%d (%s) want %d", v[0], v[1], c, r, w)
		}
	}
}

func TestApkTokensAgainstRepoVectors(t *testing.T) {
	f, err := os.Open("/repo/pkg/ecosystem/alpine/testdata/compare.txt")
	if err != nil {
		t.Skip(err)
	}
	defer f.Close()
	sc := bufio.NewScanner(f)
	n, bad := 0, 0
	for sc.Scan() {
		line := sc.Text()
		if k := strings.IndexByte(line, '#'); k >= 0 {
			line = line[:k]
		}
		fs := strings.Fields(line)
		if len(fs) != 3 {
			continue
		}
		want := map[string]int{"<": -1, "=": 0, ">": 1}[fs[1]]
		n++
		if got := ApkTokens(fs[0], fs[2]); got != want {
			bad++
			t.Logf("ApkTokens(%q,%q)=%d want %d", fs[0], fs[2], got, want)
		}
		if ApkInDomain(fs[0], fs[2]) {
			if c, rule, claimed := ApkCmp(fs[0], fs[2]); claimed && c != want {
				t.Errorf("sentence model (%q,%q)=%d (%s) want %d", fs[0], fs[2], c, rule, want)
			}
		}
	}
	t.Logf("%d vectors, %d token-model mismatches", n, bad)
	if bad > 5 {
		t.Errorf("too many mismatches")
	}
}

func TestSemver(t *testing.T) {
	chain := []string{"1.0.0-alpha", "1.0.0-alpha.1", "1.0.0-alpha.beta", "1.0.0-beta", "1.0.0-beta.2", "1.0.0-beta.11", "1.0.0-rc.1", "1.0.0"}
	for i := range chain {
		for j := range chain {
			c, _ := SemverCmp(chain[i], chain[j])
			if c != sgn(i-j) {
				t.Errorf("%s %s %d", chain[i], chain[j], c)
			}
		}
	}
	for _, s := range []string{"1.0.0", "1.0.0-0", "1.0.0--", "1.0.0-a.-5", "1.0.0+01", "1.0.0-0a"} {
		if !SemverValid(s) {
			t.Errorf("should be valid %s", s)
		}
	}
	for _, s := range []string{"1.0", "01.0.0", "1.0.0-01", "1.0.0-", "1.0.0-a..b", "1.0.0+", "v1.0.0", "1.0.0.0"} {
		if SemverValid(s) {
			t.Errorf("should be invalid %s", s)
		}
	}
}
