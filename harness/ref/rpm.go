package ref

import "strings"

// rpm >= 4.15 rpmio/rpmvercmp.c (with '~' and '^').

func rpmvercmp(a, b string) (int, string) {
	if a == b {
		return 0, "rpm/equal"
	}
	i, j := 0, 0
	for i < len(a) || j < len(b) {
		for i < len(a) && !isD(a[i]) && !isAl(a[i]) && a[i] != '~' && a[i] != '^' {
			i++
		}
		for j < len(b) && !isD(b[j]) && !isAl(b[j]) && b[j] != '~' && b[j] != '^' {
			j++
		}
		if at(a, i) == '~' || at(b, j) == '~' {
			if at(a, i) != '~' {
				return 1, "rpm/tilde"
			}
			if at(b, j) != '~' {
				return -1, "rpm/tilde"
			}
			i++
			j++
			continue
		}
		if at(a, i) == '^' || at(b, j) == '^' {
			if i >= len(a) {
				return -1, "rpm/caret-vs-end"
			}
			if j >= len(b) {
				return 1, "rpm/caret-vs-end"
			}
			if a[i] != '^' {
				return 1, "rpm/caret-vs-segment"
			}
			if b[j] != '^' {
				return -1, "rpm/caret-vs-segment"
			}
			i++
			j++
			continue
		}
		if !(i < len(a) && j < len(b)) {
			break
		}
		si, sj := i, j
		isnum := false
		if isD(a[i]) {
			for i < len(a) && isD(a[i]) {
				i++
			}
			for j < len(b) && isD(b[j]) {
				j++
			}
			isnum = true
		} else {
			for i < len(a) && isAl(a[i]) {
				i++
			}
			for j < len(b) && isAl(b[j]) {
				j++
			}
		}
		one, two := a[si:i], b[sj:j]
		if one == "" {
			return -1, "rpm/num-vs-alpha" // cannot happen: one is non-empty by construction
		}
		if two == "" {
			if isnum {
				return 1, "rpm/num-vs-alpha"
			}
			return -1, "rpm/num-vs-alpha"
		}
		if isnum {
			o, t := strings.TrimLeft(one, "0"), strings.TrimLeft(two, "0")
			rule := "rpm/numeric"
			if len(o) > 19 || len(t) > 19 {
				rule = "rpm/big-numeric"
			} else if len(o) != len(one) || len(t) != len(two) {
				rule = "rpm/leading-zeros"
			}
			if len(o) != len(t) {
				return sgn(len(o) - len(t)), rule
			}
			if c := strings.Compare(o, t); c != 0 {
				return sgn(c), rule
			}
			continue
		}
		if c := strings.Compare(one, two); c != 0 {
			return sgn(c), "rpm/alpha-bytes"
		}
	}
	if i >= len(a) && j >= len(b) {
		return 0, "rpm/equal-modulo-separators"
	}
	if i >= len(a) {
		return -1, "rpm/remaining-segments-newer"
	}
	return 1, "rpm/remaining-segments-newer"
}

// RpmSplit splits [epoch:]version[-release] at the first colon and the last hyphen.
func RpmSplit(s string) (e, v, r string) {
	e = "0"
	if k := strings.IndexByte(s, ':'); k >= 0 && AllDigits(s[:k]) {
		e, s = s[:k], s[k+1:]
	}
	if k := strings.LastIndexByte(s, '-'); k >= 0 {
		s, r = s[:k], s[k+1:]
	}
	return e, s, r
}

// RpmCmp compares EVR: epoch numerically, then version, then release with rpmvercmp.
func RpmCmp(a, b string) (int, string) {
	ea, va, ra := RpmSplit(a)
	eb, vb, rb := RpmSplit(b)
	if c := NumCmp(ea, eb); c != 0 {
		return c, "rpm/epoch"
	}
	if c, r := rpmvercmp(va, vb); c != 0 {
		return c, r
	}
	c, r := rpmvercmp(ra, rb)
	if c != 0 {
		return c, "release:" + r
	}
	return 0, "rpm/equal"
}

// RpmVectors are comparison vectors from rpm's own tests/rpmvercmp.at (model self-test).
var RpmVectors = [][3]string{
	{"1.0", "1.0", "0"}, {"1.0", "2.0", "-1"}, {"2.0", "1.0", "1"}, {"2.0.1", "2.0.1", "0"}, {"2.0", "2.0.1", "-1"}, {"2.0.1", "2.0", "1"},
	{"2.0.1a", "2.0.1a", "0"}, {"2.0.1a", "2.0.1", "1"}, {"2.0.1", "2.0.1a", "-1"}, {"5.5p1", "5.5p1", "0"}, {"5.5p1", "5.5p2", "-1"},
	{"5.5p2", "5.5p1", "1"}, {"5.5p10", "5.5p10", "0"}, {"5.5p1", "5.5p10", "-1"}, {"5.5p10", "5.5p1", "1"}, {"10xyz", "10.1xyz", "-1"},
	{"10.1xyz", "10xyz", "1"}, {"xyz10", "xyz10", "0"}, {"xyz10", "xyz10.1", "-1"}, {"xyz10.1", "xyz10", "1"}, {"xyz.4", "xyz.4", "0"},
	{"xyz.4", "8", "-1"}, {"8", "xyz.4", "1"}, {"xyz.4", "2", "-1"}, {"2", "xyz.4", "1"}, {"5.5p2", "5.6p1", "-1"}, {"5.6p1", "5.5p2", "1"},
	{"5.6p1", "6.5p1", "-1"}, {"6.5p1", "5.6p1", "1"}, {"6.0.rc1", "6.0", "1"}, {"6.0", "6.0.rc1", "-1"}, {"10b2", "10a1", "1"},
	{"10a2", "10b2", "-1"}, {"1.0aa", "1.0aa", "0"}, {"1.0a", "1.0aa", "-1"}, {"1.0aa", "1.0a", "1"}, {"10.0001", "10.0001", "0"},
	{"10.0001", "10.1", "0"}, {"10.1", "10.0001", "0"}, {"10.0001", "10.0039", "-1"}, {"10.0039", "10.0001", "1"}, {"4.999.9", "5.0", "-1"},
	{"5.0", "4.999.9", "1"}, {"20101121", "20101121", "0"}, {"20101121", "20101122", "-1"}, {"20101122", "20101121", "1"}, {"2_0", "2_0", "0"},
	{"2.0", "2_0", "0"}, {"2_0", "2.0", "0"}, {"a", "a", "0"}, {"a+", "a+", "0"}, {"a+", "a_", "0"}, {"a_", "a+", "0"}, {"+a", "+a", "0"},
	{"+a", "_a", "0"}, {"_a", "+a", "0"}, {"+_", "+_", "0"}, {"_+", "+_", "0"}, {"_+", "_+", "0"}, {"+", "_", "0"}, {"_", "+", "0"},
	{"1.0~rc1", "1.0~rc1", "0"}, {"1.0~rc1", "1.0", "-1"}, {"1.0", "1.0~rc1", "1"}, {"1.0~rc1", "1.0~rc2", "-1"}, {"1.0~rc2", "1.0~rc1", "1"},
	{"1.0~rc1~git123", "1.0~rc1~git123", "0"}, {"1.0~rc1~git123", "1.0~rc1", "-1"}, {"1.0~rc1", "1.0~rc1~git123", "1"},
	{"1.0^", "1.0^", "0"}, {"1.0^", "1.0", "1"}, {"1.0", "1.0^", "-1"}, {"1.0^git1", "1.0^git1", "0"}, {"1.0^git1", "1.0", "1"},
	{"1.0", "1.0^git1", "-1"}, {"1.0^git1", "1.0^git2", "-1"}, {"1.0^git2", "1.0^git1", "1"}, {"1.0^git1", "1.01", "-1"}, {"1.01", "1.0^git1", "1"},
	{"1.0^20160101", "1.0^20160101", "0"}, {"1.0^20160101", "1.0.1", "-1"}, {"1.0.1", "1.0^20160101", "1"},
	{"1.0^20160101^git1", "1.0^20160101^git1", "0"}, {"1.0^20160102", "1.0^20160101^git1", "1"}, {"1.0^20160101^git1", "1.0^20160102", "-1"},
	{"1.0~rc1^git1", "1.0~rc1^git1", "0"}, {"1.0~rc1^git1", "1.0~rc1", "1"}, {"1.0~rc1", "1.0~rc1^git1", "-1"},
	{"1.0^git1~pre", "1.0^git1~pre", "0"}, {"1.0^git1", "1.0^git1~pre", "1"}, {"1.0^git1~pre", "1.0^git1", "-1"},
}
