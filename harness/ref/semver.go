package ref

import (
	"regexp"
	"strings"
)

// SemVer 2.0.0 section 11 precedence and section 2/9/10 grammar.

var semverStrict = regexp.MustCompile(`^(0|[1-9][0-9]*)\.(0|[1-9][0-9]*)\.(0|[1-9][0-9]*)(?:-((?:0|[1-9][0-9]*|[0-9]*[a-zA-Z-][0-9a-zA-Z-]*)(?:\.(?:0|[1-9][0-9]*|[0-9]*[a-zA-Z-][0-9a-zA-Z-]*))*))?(?:\+([0-9a-zA-Z-]+(?:\.[0-9a-zA-Z-]+)*))?$`)

// SemverValid reports whether s is a valid SemVer 2.0.0 version (the regex published on semver.org).
func SemverValid(s string) bool { return semverStrict.MatchString(s) }

// SemverSplit splits a (loose) version into numeric core components and pre-release identifiers;
// a leading v/= and build metadata are dropped.
func SemverSplit(s string) (core []string, pre []string) {
	s = strings.TrimLeft(s, "v=")
	if k := strings.IndexByte(s, '+'); k >= 0 {
		s = s[:k]
	}
	p := ""
	if k := strings.IndexByte(s, '-'); k >= 0 {
		s, p = s[:k], s[k+1:]
	}
	core = strings.Split(s, ".")
	if p != "" {
		pre = strings.Split(p, ".")
	}
	return
}

// SemverCmp compares by section 11; cores are compared over max(len) components, missing = 0
// (NuGet's optional 2nd..4th components).
func SemverCmp(a, b string) (int, string) {
	ca, pa := SemverSplit(a)
	cb, pb := SemverSplit(b)
	for i := 0; i < len(ca) || i < len(cb); i++ {
		x, y := "0", "0"
		if i < len(ca) {
			x = ca[i]
		}
		if i < len(cb) {
			y = cb[i]
		}
		if c := NumCmp(x, y); c != 0 {
			return c, "semver/core-numeric"
		}
	}
	return SemverPreCmp(pa, pb)
}

// SemverPreCmp compares two pre-release identifier lists (empty = release).
func SemverPreCmp(pa, pb []string) (int, string) {
	if len(pa) == 0 && len(pb) == 0 {
		return 0, "semver/equal"
	}
	if len(pa) == 0 {
		return 1, "semver/release-above-prerelease"
	}
	if len(pb) == 0 {
		return -1, "semver/release-above-prerelease"
	}
	for i := 0; i < len(pa) || i < len(pb); i++ {
		if i >= len(pa) {
			return -1, "semver/longer-list-wins"
		}
		if i >= len(pb) {
			return 1, "semver/longer-list-wins"
		}
		x, y := pa[i], pb[i]
		xd, yd := AllDigits(x), AllDigits(y)
		switch {
		case xd && yd:
			if c := NumCmp(x, y); c != 0 {
				return c, "semver/numeric-identifiers"
			}
		case xd:
			return -1, "semver/numeric-below-alnum"
		case yd:
			return 1, "semver/numeric-below-alnum"
		default:
			if c := strings.Compare(x, y); c != 0 {
				r := "semver/alnum-ascii"
				if strings.HasPrefix(x, "-") || strings.HasPrefix(y, "-") {
					r = "semver/alnum-ascii-hyphen-leading"
				}
				return sgn(c), r
			}
		}
	}
	return 0, "semver/equal"
}
