// Package ref holds small executable reference models written from upstream definitions (not from
// go-univers). Every comparator returns the sign and the rule (clause of the definition) that decided.
package ref

import "strings"

func sgn(x int) int {
	switch {
	case x < 0:
		return -1
	case x > 0:
		return 1
	}
	return 0
}

func isD(c byte) bool  { return c >= '0' && c <= '9' }
func isAl(c byte) bool { return (c >= 'a' && c <= 'z') || (c >= 'A' && c <= 'Z') }

// NumCmp compares two decimal digit strings of any length as integers.
func NumCmp(a, b string) int {
	a = strings.TrimLeft(a, "0")
	b = strings.TrimLeft(b, "0")
	if len(a) != len(b) {
		return sgn(len(a) - len(b))
	}
	return sgn(strings.Compare(a, b))
}

// AllDigits reports a non-empty all-digit string.
func AllDigits(s string) bool {
	if s == "" {
		return false
	}
	for i := 0; i < len(s); i++ {
		if !isD(s[i]) {
			return false
		}
	}
	return true
}
