#!/bin/bash
# Pre-builds the harness (every check rebuilds anyway). Offline.
cd "$(dirname "$0")"
export GOFLAGS=-mod=mod GOPROXY=off GOTOOLCHAIN=local
GO=/root/go/pkg/mod/golang.org/toolchain@v0.0.1-go1.24.4.linux-amd64/bin/go
[ -x "$GO" ] || { GO=go; export GOTOOLCHAIN=auto; }
mkdir -p .build evidence replays
cd harness && $GO build -o ../.build/verifmon ./cmd/verifmon
