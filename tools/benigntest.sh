#!/bin/bash
# benigntest.sh [name...]   for every change under /verif/benign/<name>/ (changes under which the properties still hold):
# scratch worktree of /repo + patch, run the quick checks listed in meta.json must_stay_silent, expect exit 0.
cd "$(dirname "$0")/.."
NAMES="$@"; [ -z "$NAMES" ] && NAMES=$(ls benign)
rc_all=0
for n in $NAMES; do
  d=benign/$n; [ -f $d/patch.diff ] || continue
  props=$(python3 -c "import json;print(' '.join(json.load(open('$d/meta.json'))['must_stay_silent']))")
  wt=/tmp/verif-benign.$$.$n
  git -C /repo worktree add -q --detach $wt HEAD || continue
  if ! git -C $wt apply $PWD/$d/patch.diff; then echo "$n: patch does not apply"; git -C /repo worktree remove --force $wt; continue; fi
  for p in $props; do
    out=$(VERIF_REPO=$wt VERIF_SEED=${VERIF_SEED:-1} ./check $p quick 2>&1); rc=$?
    echo "$n $p rc=$rc $(echo "$out" | grep '^VIOLATION' | head -1 | cut -c1-200)"
    [ $rc -ne 0 ] && rc_all=1
  done
  git -C /repo worktree remove --force $wt
done
exit $rc_all
