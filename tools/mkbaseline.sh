#!/bin/bash
# mkbaseline.sh   regenerates harness/gen/baseline_dict.json (the dictionary of literals of /repo's current tree). Run it
# after every fix: commit to /repo, so that only literals introduced by LATER changes count as "not in the baseline".
cd "$(dirname "$0")/../harness" || exit 2
export GOFLAGS=-mod=mod GOPROXY=off GOTOOLCHAIN=local
GO=/root/go/pkg/mod/golang.org/toolchain@v0.0.1-go1.24.4.linux-amd64/bin/go
[ -s gen/baseline_dict.json ] || echo '{}' > gen/baseline_dict.json
$GO build -o ../.build/verifmon.dict ./cmd/verifmon && VERIF_REPO=/repo ../.build/verifmon.dict DICT dump > ../.build/baseline.tmp && mv ../.build/baseline.tmp gen/baseline_dict.json
rm -f ../.build/verifmon.dict
ls -la gen/baseline_dict.json
