#!/usr/bin/env python3
"""Regenerates /verif/MANIFEST.json from the table below (kept valid at every commit)."""
import json, os
V = os.path.dirname(os.path.dirname(os.path.abspath(__file__)))
GO = "/root/go/pkg/mod/golang.org/toolchain@v0.0.1-go1.24.4.linux-amd64/bin/go"
claimed = {
 # id: (technique, level text, level note, design ref)
 "C01": ("online law monitor over full comparison matrices of generated pools (runtime monitoring)",
         "Exploration: every Compare call on generated pools is observed and the total-preorder laws are decided on the complete matrix of each pool; holds only for the pools produced.",
         "Trusts the pool generators' reach (clusters, boundary numbers, respellings) and Go's sort; alpm pools split by pkgrel presence as the property allows.", "5/C01"),
}
pending = {}
props = [json.loads(l) for l in open(os.path.join(V, "properties.jsonl"))]
checks, na = [], []
for p in props:
    i = p["id"]
    if i in claimed:
        t, text, note, ref = claimed[i]
        checks.append({
            "property_id": i,
            "quick_cmd": f"./check {i} quick",
            "thorough_cmd": f"./check {i} thorough",
            "evidence_file": f"/verif/evidence/{i}.json",
            "replay_cmd_template": f"./check {i} --replay {{path}}",
            "engine": "verifmon",
            "level_claimed": {"category": "exploration", "text": text, "design_ref": "DESIGN.md section " + ref},
            "level_note": note,
            "technique": t,
        })
    else:
        na.append({"property_id": i, "reason": pending.get(i, "check not built yet in this round; the design in DESIGN.md section 5 applies and the property is expected to be claimed")})
m = {
 "version": 1,
 "setup_cmd": "./setup.sh",
 "hooks": {"guard": "verif", "enable": "none needed: all monitors observe the public API / process boundary; checks build /repo's working tree through a go.mod replace directive",
           "baseline_off_cmd": "cd /repo && GOFLAGS=-mod=mod go test -vet=off -count=1 ./...", "source_commits": [], "add_only": True},
 "engines": [{"name": "verifmon", "path": "/verif/harness/cmd/verifmon", "serves_properties": sorted(claimed), "kind_free_text": "Go harness: workload generators, reference models and online monitors driving the real library and CLI; race detector for C19"}],
 "checks": checks,
 "notes": "exit 0 held / 1 violation / 3 inconclusive; VERIF_SEED seeds every random choice; known findings in /verif/known_findings.json",
 "not_applicable": na,
}
json.dump(m, open(os.path.join(V, "MANIFEST.json"), "w"), indent=1)
print("claimed", len(checks), "unclaimed", len(na))
