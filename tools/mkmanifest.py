#!/usr/bin/env python3
"""Regenerates /verif/MANIFEST.json from the table below (kept valid at every commit)."""
import json, os
V = os.path.dirname(os.path.dirname(os.path.abspath(__file__)))
GO = "/root/go/pkg/mod/golang.org/toolchain@v0.0.1-go1.24.4.linux-amd64/bin/go"
claimed = {
 # id: (technique, level text, level note, design ref)
 "C01": ("online law monitor over full comparison matrices of generated pools (runtime monitoring)",
         "Exploration: every Compare call on generated pools is observed and the total-preorder laws are decided on the complete matrix of each pool; holds only for the pools produced.",
         "Trusts the pool generators' reach (clusters, boundary numbers, respellings) and Go's sort; alpm pools split by pkgrel presence as the property allows.", "5/C01"),
}
REFTXT = "Exploration: every ordered pair of generated in-domain pools is compared by the real Compare and by an independent executable reference model written from the upstream definition; disagreement on any observed pair is a violation with the deciding clause named. A volume workload (560k distinct versions parsed and kept, compared afterwards) and used objects (passed through range membership first) extend the observation to state that builds up and to operand mutation."
for i, (what, note) in {
 "C08": ("SemVer 2.0.0 section 11 (ref/semver.go)", "Model calibrated against node-semver (0 disagreements on 178k pairs); identifiers up to 18 digits; NuGet single-case."),
 "C09": ("PEP 440 / packaging._cmpkey (ref/pep440.go)", "Model calibrated against packaging 26.3 (0 disagreements on 600k pairs)."),
 "C10": ("dpkg verrevcmp (ref/dpkg.go)", "Model calibrated against /usr/bin/dpkg --compare-versions (0 disagreements); domain = dpkg-valid strings."),
 "C11": ("rpmvercmp (ref/rpm.go)", "No rpm binary in the image; model anchored on rpm's own rpmvercmp.at vectors."),
 "C12": ("Maven ComparableVersion 3.8 (ref/maven.go)", "Model calibrated against maven-artifact 3.8.7 (0 disagreements on 600k pairs); domain = conventional shapes only."),
 "C13": ("Gem::Version (ref/gem.go)", "No ruby in the image; model anchored on rubygems' test vectors; single-case letters only."),
 "C14": ("apk-tools order per the property's sentence (ref/apk.go)", "Unclaimed where apk-tools 2.12's token machine (transcribed, reproduces compare.txt) disagrees with the sentence."),
}.items():
    claimed[i] = ("reference-model monitor: real Compare vs " + what + " on generated pools (runtime monitoring)", REFTXT, note, "5/" + i)
claimed["C02"] = ("online law monitor: Contains vs truth table over the implementation's own Compare, all comparator x separator spellings (runtime monitoring)",
  "Exploration: for generated bounds/probes every supported comparator, AND-separator and OR-separator spelling is parsed and every Contains result is compared with the truth table on Compare; holds for the cases produced.",
  "Trusts the static syntax table CmpTable (written from docs, not from behaviour) and the pool generators.", "5/C02")
claimed["C03"] = ("reference monitor: integer-tuple order and marker direction vs real Compare (runtime monitoring)",
  "Exploration: generated same-arity numeric tuples over the boundary set and every accepted marker spelling are parsed and compared by the real code; the oracle is integer-tuple comparison and the fixed direction of each marker.",
  "Trusts the static arity and marker tables; github date-shaped inputs compared only among themselves.", "5/C03")
claimed["C04"] = ("reference-model monitor: vers.Contains vs union-of-intervals denotation under the scheme's own Compare, all well-formed shapes (runtime monitoring)",
  "Exploration: every well-formed comparator shape up to k constraints (exhaustive for small k, sampled beyond) is evaluated by the real vers.Contains on generated chains and probes and compared with an independent interval denotation.",
  "Trusts checks/vers.go (VERS interval reading) and the scheme ecosystem's Compare as order, as the property states.", "5/C04")
claimed["C16"] = ("metamorphic law monitor over pairs of equivalent VERS spellings (runtime monitoring)",
  "Exploration: generated base ranges and their permutations / space insertions / duplications / empty-constraint insertions are evaluated by the real vers.Contains on the same probes; any difference in (bool, err==nil) is a violation.",
  "Only ranges whose constraint versions are pairwise non-equivalent under the scheme's Compare and that are accepted without error are related, as the quantifier states.", "5/C16")
claimed["C17"] = ("oracle monitor: rule validator + routing discrimination vs real vers.Contains on single-point corruptions (runtime monitoring)",
  "Exploration: all single-point corruptions of generated valid ranges are classified by an independent validator for the property's rule list; a corrupted input that violates a rule must yield (false, error). Routing is decided on inputs where ecosystems disagree.",
  "Trusts the rule validator (Appendix C of DESIGN.md) and each ecosystem's NewVersion for version validity.", "5/C17")
claimed["C05"] = ("reference-model monitor: documented-interval table vs real Contains on boundary-concentrated probes (runtime monitoring)",
  "Exploration: for every documented (ecosystem, construct, arity) generated bases and boundary probes are evaluated by the real parser and Contains; expected membership comes from an interval table written from upstream documentation and the ecosystem's own Compare.",
  "Trusts the interval table (DESIGN.md Appendix A) and the unclaimed-zone definitions; Compare is the order.", "5/C05 + Appendix A")
claimed["C06"] = ("crash / hang / cost monitors in child processes: exhaustive short strings, hostile mutations, size ladders under CPU budgets, CLI argv (runtime monitoring)",
  "Exploration with an exhaustive core: all strings up to length k over a 27-symbol syntax alphabet through every entry point (exhaustive for that sub-space only), plus hostile mutations, size ladders with CPU-time budgets and the built binary on hostile argv; oracles are recover(), value-xor-error, (true,err) and the budget.",
  "CPU time via getrusage, never wall-clock; a wall-clock watchdog firing alone is inconclusive.", "5/C06")
claimed["C07"] = ("law monitor on sort outputs, in process and at the process boundary of the built binary (runtime monitoring)",
  "Exploration: generated lists with duplicates and equal respellings are sorted in every permutation (all for <= 6 elements) by the documented idiom and by the real CLI; permutation, sortedness and class-sequence invariance are decided with the implementation's Compare; invalid elements are injected at every position.",
  "Lists on which Compare is not a total preorder are skipped and left to C01.", "5/C07")
claimed["C15"] = ("differential process monitor: built univers binary vs in-process library on generated argv (runtime monitoring)",
  "Exploration: for generated argument vectors over all names and commands the binary's stdout and exit status are compared with the library result computed through the adapter registered under the same name; discriminating inputs make mis-wiring observable.",
  "Trusts the harness's formatter for the documented output format; equal elements in sort output are compared modulo equivalence classes.", "5/C15")
claimed["C18"] = ("metamorphic law monitor: String()/re-parse round trip and whitespace padding invariance (runtime monitoring)",
  "Exploration: generated accepted (and some rejected) version and range strings are round-tripped through String() and re-parsed, and padded with ASCII whitespace; acceptance, Compare against pool partners and Contains must not change.",
  "ASCII whitespace = space, tab, CR, LF; probes and partners come from the same generated pools.", "5/C18")
claimed["C20"] = ("law monitor over pool x range membership matrices: equal versions agree, conjunctions are convex (runtime monitoring)",
  "Exploration: every accepted generated range is evaluated on whole pools enriched with respellings; Compare-equal versions must agree on membership and conjunction-only ranges must contain a contiguous block of the pool's sorted classes.",
  "Compare is the order; pools that are not total preorders are skipped (C01); exclusions as in the quantifier.", "5/C20")
claimed["C19"] = ("Go race detector over barrier-released goroutine storms on shared values and over cold-start processes + hot-object storm in the fast build + observable-purity monitor + volume (state that builds up) + concurrent/sequential and history differentials (runtime monitoring, sanitizer)",
  "Exploration: a -race build runs storms at several G and GOMAXPROCS on shared versions, ranges and ecosystem values for all 20 ecosystems and vers, and cold-start processes whose first library calls are concurrent; the fast build puts 16 goroutines inside one shared object at a time; DATA RACE reports, result differences vs a sequential run, observable changes of operands across calls, answers that change after 560k further distinct inputs and history / fresh-process differences are the violations.",
  "Happens-before race detection covers conflicting accesses the workload executes; a change of an operand's memory counts only when String / Compare / Contains differ from a fresh parse; package-level tables are observed through results.", "5/C19 and 10.2")
pending = {}
props = [json.loads(l) for l in open(os.path.join(V, "properties.jsonl"))]
checks, na = [], []
for p in props:
    i = p["id"]
    if i in claimed:
        t, text, note, ref = claimed[i]
        checks.append({
            "property_id": i,
            "quick_cmd": f"./check {i} quick",
            "thorough_cmd": f"./check {i} thorough",
            "evidence_file": f"/verif/evidence/{i}.json",
            "replay_cmd_template": f"./check {i} --replay {{path}}",
            "engine": "verifmon",
            "level_claimed": {"category": "exploration", "text": text, "design_ref": "DESIGN.md section " + ref},
            "level_note": note,
            "technique": t,
        })
    else:
        na.append({"property_id": i, "reason": pending.get(i, "check not built yet in this round; the design in DESIGN.md section 5 applies and the property is expected to be claimed")})
m = {
 "version": 1,
 "setup_cmd": "./setup.sh",
 "hooks": {"guard": "verif", "enable": "none needed: all monitors observe the public API / process boundary; checks build /repo's working tree through a go.mod replace directive",
           "baseline_off_cmd": "cd /repo && GOFLAGS=-mod=mod go test -vet=off -count=1 ./...", "source_commits": [], "add_only": True},
 "engines": [{"name": "verifmon", "path": "/verif/harness/cmd/verifmon", "serves_properties": sorted(claimed), "kind_free_text": "Go harness: workload generators, reference models and online monitors driving the real library and CLI; race detector for C19"}],
 "checks": checks,
 "notes": "exit 0 held / 1 violation / 3 inconclusive; VERIF_SEED seeds every random choice; known findings in /verif/known_findings.json",
 "not_applicable": na,
}
json.dump(m, open(os.path.join(V, "MANIFEST.json"), "w"), indent=1)
print("claimed", len(checks), "unclaimed", len(na))
