#!/bin/bash
# Runs the repository's own suite with the guard off (there is no guard: no hooks are used) and prints a summary.
export GOFLAGS=-mod=mod GOPROXY=off GOTOOLCHAIN=local
GO=/root/go/pkg/mod/golang.org/toolchain@v0.0.1-go1.24.4.linux-amd64/bin/go
cd ${1:-/repo} && $GO build ./... && $GO test -vet=off -count=1 ./... 2>&1 | grep -v "^ok\|no test files" | head -60; echo "exit=${PIPESTATUS[0]}"
cd ${1:-/repo} && $GO test -vet=off -count=1 -json ./... 2>/dev/null | python3 -c "
import sys,json
p=f=0
for l in sys.stdin:
    try: e=json.loads(l)
    except: continue
    if e.get('Test') and e.get('Action')=='pass': p+=1
    if e.get('Test') and e.get('Action')=='fail': f+=1; print('FAIL',e['Package'],e['Test'])
print('tests passed',p,'failed',f)"
