#!/bin/bash
# seedeval.sh <name> <worktree> <prop> [more props...]
# Confirms a seeded change (suite green with it, demo fails with it, demo passes without it), runs the
# quick checks against the worktree (VERIF_REPO) and stores the change under /verif/seeded/<name>/.
set -u
NAME=$1; WT=$2; shift 2; PROPS="$@"
export GOFLAGS=-mod=mod GOPROXY=off GOTOOLCHAIN=local
GO=/root/go/pkg/mod/golang.org/toolchain@v0.0.1-go1.24.4.linux-amd64/bin/go
cd $WT || exit 2
[ -f SEEDED/patch.diff ] || { echo "no SEEDED/patch.diff"; exit 2; }
DEMO_DIR=$(python3 -c "import json;print(json.load(open('SEEDED/meta.json')).get('demo_dir',''))")
DEMO_CMD=$(python3 -c "import json;print(json.load(open('SEEDED/meta.json')).get('demo_cmd',''))")
# normalise: start from clean tree, then apply the patch
git stash -q -u -- . ':!SEEDED' 2>/dev/null; git checkout -q -- . 2>/dev/null
git apply SEEDED/patch.diff || { echo "RESULT patch does not apply"; exit 2; }
echo "--- suite with change"
$GO build ./cmd/... ./pkg/... && $GO test -vet=off -count=1 ./cmd/... ./pkg/... 2>&1 | grep -v "^ok\|no test files" | head; SUITE=${PIPESTATUS[0]}
echo "suite_exit=$SUITE"
run_demo() { ( eval "$DEMO_CMD" ) > /tmp/seedeval.$$.log 2>&1; rc=$?; if grep -q -- "^FAIL\|--- FAIL\|^panic:\|DEMO FAIL" /tmp/seedeval.$$.log; then echo 1; elif grep -q "^ok\|^PASS\|DEMO PASS" /tmp/seedeval.$$.log; then echo 0; else echo "rc$rc"; fi; }
echo "--- demo with change"; D1=$(run_demo); tail -5 /tmp/seedeval.$$.log
git apply -R SEEDED/patch.diff
echo "--- demo without change"; D0=$(run_demo); tail -3 /tmp/seedeval.$$.log
git apply SEEDED/patch.diff
# remove demo copies left by demo_cmd
git status --short | grep '^??' | grep -v SEEDED | awk '{print $2}' | xargs -r rm -rf
echo "RESULT suite_exit=$SUITE demo_with_change=$D1 demo_without_change=$D0"
cd /verif
for p in $PROPS; do
  out=$(VERIF_REPO=$WT ./check $p quick 2>&1); rc=$?
  echo "CHECK $p rc=$rc :: $(echo "$out" | grep -v '^KNOWN' | head -3 | cut -c1-300)"
done
mkdir -p /verif/seeded/$NAME && cp -r $WT/SEEDED/* /verif/seeded/$NAME/
rm -f /tmp/seedeval.$$.log
