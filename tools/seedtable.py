#!/usr/bin/env python3
"""Regenerates DESIGN.md section 10.5 from /verif/seeded/*/meta.json (+ detection.json)."""
import json, glob, os
os.chdir(os.path.dirname(os.path.dirname(os.path.abspath(__file__))))
rows = []; missed = thin = other_only = undetected = 0
for d in sorted(glob.glob('seeded/*')):
    n = os.path.basename(d); m = json.load(open(d + '/meta.json'))
    ran = m.setdefault('ran', {'confirmed': 'tools/seedeval.sh: unedited suite passes with the change; the demonstration fails with it and passes without it',
                               'detection': 'tools/selftest.sh (scratch worktree of /repo + VERIF_REPO), see detection.json', 'note': 'caught as built'})
    json.dump(m, open(d + '/meta.json', 'w'), indent=1)
    det = json.load(open(d + '/detection.json')) if os.path.exists(d + '/detection.json') else {}
    caught = ', '.join(k for k, v in det.get('results', {}).items() if v['exit'] == 1) or '(see history)'
    note = ran.get('note', '')
    if det.get('results') and det['results'].get(m.get('property','')[:3], {}).get('exit') != 1 and not note.startswith('NOT DETECTED'):
        other_only += 1
    undetected += note.startswith('NOT DETECTED'); missed += note.startswith('missed'); thin += note.startswith('caught thinly') or note.startswith('caught at seed')
    need = m.get('needs_to_manifest', '')[:150].replace('|', '/').replace('\n', ' ')
    rows.append(f"| {n} | {m.get('property','')[:3]} | {need} | {caught} | {note} |")
txt = f'''
### 10.5 Seeded changes (independent sub-agents, property text only) and which checks catch them

Each change compiles, keeps the 3542 tests green, and comes with a demonstration that fails with it and
passes without it (confirmed with `tools/seedeval.sh`). Batches 1-4 were written against the property text alone;
batches 5-15 ("hard mode") were additionally told what a property-based harness of this kind generates and asked for a
change it would plausibly miss - the description grew with every batch; batches 16-19 (C10g, C14h; C11h, C13h, C16i; C08h, C12h; C03i, C18i) were run against the
checks as frozen at the end of batch 15 - eight caught as built, C11h (a word-wise big-number comparison that is wrong
only from 39 equal-length digits with the difference in the leading ones) caught after `gen.LongRunFamily` was added
(C10 and C11 quick then silent on the unchanged tree at seeds 1-5, 7-20 and 42). `tools/selftest.sh` re-applies every patch
in a scratch worktree and runs the quick check of the targeted property and of the properties listed under
`also_check` (`detection.json`). {len(rows)} changes so far; {missed} were missed and {thin} were caught only thinly or
seed-dependently by the checks as they stood when the change arrived; after the strengthening recorded in the history
column {len(rows) - undetected} of the {len(rows)} changes are detected by a quick check ({undetected} are not, see 10.6): {len(rows) - other_only - undetected} by the quick check of the property they were written
against, {other_only} only by another property's check (changes that are wrong only under concurrency were written
against sequential properties C04 / C09 / C10 / C12 and are C19's subject).

| change | property | needs in order to manifest (abridged) | caught by (quick) | history |
|---|---|---|---|---|
''' + '\n'.join(rows) + '''

Lessons that went back into the machinery: pools need *dense local neighbourhoods* (not only far-apart
random versions), both operands of a comparison have to be unusual at the same time, probes must sit
textually on bounds, keyword separators need token-level damage, history independence has to be
exercised across schemes; values that a change special-cases are written in its source (dictionary of literals:
words, numbers, lengths, operators, CLI words); tables keyed on a hash need colliding and extreme-hash inputs;
state that builds up needs volume with KEPT objects and re-asked first questions; tables keyed on glued texts
need twin questions; "atomics only" memo fields need many goroutines inside ONE object; lazy initialisation needs
processes whose first calls are concurrent; packed keys need every power-of-two band and the boundaries of text
encodings; new syntax needs the sources' punctuation literals placed around versions; digit runs need
equal-length families far beyond the machine-word boundaries, differing at the head as well as at the tail.
'''
s = open('DESIGN.md').read()
tail = ''
if '\n### 10.6 ' in s:
    tail = s[s.index('\n### 10.6 '):]
    s = s[:s.index('\n### 10.6 ')]
if '\n### 10.5 Seeded changes' in s:
    s = s[:s.index('\n### 10.5 Seeded changes')]
open('DESIGN.md', 'w').write(s + txt.rstrip('\n') + '\n' + tail)
print(len(rows), 'rows;', missed, 'missed first;', thin, 'thin')
