#!/usr/bin/env python3
"""Regenerates DESIGN.md section 10.5 from /verif/seeded/*/meta.json (+ detection.json)."""
import json, glob, os
os.chdir(os.path.dirname(os.path.dirname(os.path.abspath(__file__))))
rows = []; missed = thin = 0
for d in sorted(glob.glob('seeded/*')):
    n = os.path.basename(d); m = json.load(open(d + '/meta.json'))
    ran = m.setdefault('ran', {'confirmed': 'tools/seedeval.sh: unedited suite passes with the change; the demonstration fails with it and passes without it',
                               'detection': 'tools/selftest.sh (scratch worktree of /repo + VERIF_REPO), see detection.json', 'note': 'caught as built'})
    json.dump(m, open(d + '/meta.json', 'w'), indent=1)
    det = json.load(open(d + '/detection.json')) if os.path.exists(d + '/detection.json') else {}
    caught = ', '.join(k for k, v in det.get('results', {}).items() if v['exit'] == 1) or '(see history)'
    note = ran.get('note', '')
    missed += note.startswith('missed'); thin += note.startswith('caught thinly') or note.startswith('caught at seed')
    need = m.get('needs_to_manifest', '')[:150].replace('|', '/').replace('\n', ' ')
    rows.append(f"| {n} | {m.get('property','')[:3]} | {need} | {caught} | {note} |")
txt = f'''
### 10.5 Seeded changes (independent sub-agents, property text only) and which checks catch them

Each change compiles, keeps the 3542 tests green, and comes with a demonstration that fails with it and
passes without it (confirmed with `tools/seedeval.sh`). `tools/selftest.sh` re-applies every patch in a
scratch worktree and runs the quick check of the targeted property (`detection.json`). {len(rows)} changes so far;
{missed} were missed and {thin} were caught only thinly or seed-dependently by the first version of the checks; after the
strengthening recorded in the history column all {len(rows)} are detected by the quick check of their own property.

| change | property | needs in order to manifest (abridged) | caught by (quick) | history |
|---|---|---|---|---|
''' + '\n'.join(rows) + '''

Lessons that went back into the machinery: pools need *dense local neighbourhoods* (not only far-apart
random versions), both operands of a comparison have to be unusual at the same time, probes must sit
textually on bounds, keyword separators need token-level damage, and history independence has to be
exercised across schemes. Changes that were caught only by another property's check than the one they were
written against were also made visible to the targeted check (C07, C17).
'''
s = open('DESIGN.md').read()
if '\n### 10.5 Seeded changes' in s:
    s = s[:s.index('\n### 10.5 Seeded changes')]
open('DESIGN.md', 'w').write(s + txt)
print(len(rows), 'rows;', missed, 'missed first;', thin, 'thin')
