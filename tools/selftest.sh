#!/bin/bash
# selftest.sh [name...]   for every seeded change under /verif/seeded/<name>/ : make a scratch worktree of /repo,
# apply patch.diff, run the quick check(s) of the targeted property against it (VERIF_REPO), expect exit 1,
# record the outcome in seeded/<name>/detection.json, remove the worktree.
cd "$(dirname "$0")/.."
NAMES="$@"; [ -z "$NAMES" ] && NAMES=$(ls seeded)
for n in $NAMES; do
  d=seeded/$n; [ -f $d/patch.diff ] || continue
  prop=$(python3 -c "import json;m=json.load(open('$d/meta.json'));print(m.get('property','')[:3])")
  extra=$(python3 -c "import json;m=json.load(open('$d/meta.json'));print(' '.join(m.get('also_check',[])))")
  wt=/tmp/verif-scratch.$$.$n
  git -C /repo worktree add -q --detach $wt HEAD || continue
  if ! git -C $wt apply $PWD/$d/patch.diff; then echo "$n: patch does not apply"; git -C /repo worktree remove --force $wt; continue; fi
  res="{}"
  for p in $prop $extra; do
    out=$(VERIF_REPO=$wt VERIF_SEED=${VERIF_SEED:-1} ./check $p quick 2>&1); rc=$?
    first=$(echo "$out" | grep '^VIOLATION' | head -1 | cut -c1-400)
    echo "$n $p rc=$rc ${first:0:200}"
    res=$(python3 -c "import json,sys;r=json.loads(sys.argv[1]);r[sys.argv[2]]={'exit':int(sys.argv[3]),'first_violation':sys.argv[4]};print(json.dumps(r))" "$res" $p $rc "$first")
  done
  python3 -c "import json,sys;json.dump({'seed':int('${VERIF_SEED:-1}'),'tier':'quick','results':json.loads(sys.argv[1])},open('$d/detection.json','w'),indent=1)" "$res"
  git -C /repo worktree remove --force $wt
done
