#!/bin/bash
# sweep.sh <tier> <seed>...   runs every check at the given seeds; prints one line per (check, seed)
cd "$(dirname "$0")/.."
TIER=${1:-quick}; shift
bad=0
for s in "$@"; do
  for i in 01 02 03 04 05 06 07 08 09 10 11 12 13 14 15 16 17 18 19 20; do
    out=$(VERIF_SEED=$s ./check C$i $TIER 2>&1); rc=$?
    echo "seed=$s C$i rc=$rc $(echo "$out" | grep -c '^KNOWN-FINDING') known; $(echo "$out" | tail -1 | cut -c1-160)"
    if [ $rc -ne 0 ]; then bad=1; echo "$out" | grep -v '^KNOWN' | head -12 | cut -c1-400; fi
  done
done
exit $bad
