#!/opt/veriftools/pyvenv/bin/python
import json, jsonschema, glob, sys
ok = True
def v(f, s):
    global ok
    try:
        jsonschema.validate(json.load(open(f)), json.load(open(s)))
    except Exception as e:
        ok = False; print("INVALID", f, str(e)[:300])
v('/verif/MANIFEST.json', '/root/.vp/MANIFEST.schema.json')
for f in sorted(glob.glob('/verif/evidence/C*.json')):
    v(f, '/root/.vp/EVIDENCE.schema.json')
print("valid" if ok else "INVALID")
sys.exit(0 if ok else 1)
